"""c03structroots — phase 6 of C03: for every whole-document rule `impl Linter for X { fn lint(&mut self, D: &Document) }` of
harper-core/src/linting/*.rs (framework files excluded) the span of every Lint the rule can construct — in `fn lint` or in a
helper fn of the same file — parsed into the language of Model/C03StructRoots.v (DTok | DHull | DBetween | DSuffix | DWithLen1 |
DUnknown) together with the ROOT of the tokens it is built from: a token of the document / of a chunk / of a sentence / a
helper parameter every call of which passes such tokens — or anything else (ROtherRoot).

Regex-level, like spanexprs.py; a variable is resolved to its NEAREST PRECEDING binding (let / let Some / if let / while let /
for / closure parameter / match arm / fn parameter); every binding form that is not one of the known token-producing forms
gives ROtherRoot (then the rule is listed as unclassified by the Coq side).  Raises on unknown shapes of the impl, of
`fn lint`, and of the signatures in token_string_ext.rs / document.rs that say `-> Option<&Token>` / `Item = &Token`
(a reference returned from `&self` with an elided lifetime points into self: the token IS one of the slice / document)."""
import os, re, sys
sys.path.insert(0, os.path.dirname(os.path.abspath(__file__)))
from spanexprs import FRAMEWORK, strip_tests, strip_comments, match_brace, top_fields, let_defs

IMPL_L = re.compile(r"\bimpl(?:\s*<[^{]*?>)?\s+Linter\s+for\s+(\w+)[^{]*\{")
LINTFN = re.compile(r"\bfn\s+lint\s*\(\s*&mut\s+self\s*,\s*(\w+)\s*:\s*&(?:crate::)?Document\s*,?\s*\)\s*->\s*Vec<[^{]*>\s*\{")
SLICE_ITERS = {"iter_chunks": "RChunk", "iter_sentences": "RSentence", "iter_paragraphs": "RParagraph"}


def api(repo):
    """token-producing methods, read off the signatures"""
    tse = strip_comments(open(os.path.join(repo, "harper-core", "src", "token_string_ext.rs"), encoding="utf-8").read())
    doc = strip_comments(open(os.path.join(repo, "harper-core", "src", "document.rs"), encoding="utf-8").read())
    for need in [r"fn \[< first_ \$thing >\]\(&self\) -> Option<&Token>;", r"fn \[< last_ \$thing >\]\(&self\) -> Option<&Token>;",
                 r"fn \[<iter_ \$thing s>\]\(&self\) -> impl Iterator<Item = &Token> \+ '_;",
                 r"fn \[<iter_ \$thing _indices>\]\(&self\) -> impl Iterator<Item = usize> \+ '_;"]:
        if not re.search(need, tse):
            raise RuntimeError("token_string_ext.rs: create_decl_for! no longer declares " + need)
    things = re.findall(r"\bcreate_decl_for!\((\w+)\)", tse)
    if len(things) < 10:
        raise RuntimeError("token_string_ext.rs: create_decl_for!(..) list not recognised")
    tok_iters = {"iter_%ss" % t for t in things} | {"iter", "tokens"}
    opt_toks = {"first_%s" % t for t in things} | {"last_%s" % t for t in things} | {"first", "last"}
    m = re.search(r"pub\s+trait\s+TokenStringExt\s*\{", tse)
    if not m:
        raise RuntimeError("trait TokenStringExt not found")
    trait = tse[m.end():match_brace(tse, m.end() - 1)]
    for fm in re.finditer(r"\bfn\s+(\w+)\s*\(\s*&self\s*\)\s*->\s*([^;{]+);", trait):
        ret = re.sub(r"\s+", "", fm.group(2))
        if ret == "Option<&Token>":
            opt_toks.add(fm.group(1))
        elif ret == "implIterator<Item=&Token>+'_":
            tok_iters.add(fm.group(1))
    for name in SLICE_ITERS:
        if not re.search(r"\bfn\s+%s\s*\(\s*&self\s*\)\s*->\s*impl\s+Iterator<Item\s*=\s*&'_\s*\[Token\]>" % name, trait):
            raise RuntimeError("token_string_ext.rs: %s no longer yields sub-slices `&'_ [Token]`" % name)
    if not re.search(r"pub\s+fn\s+get_token\s*\(\s*&self\s*,\s*\w+\s*:\s*usize\s*\)\s*->\s*Option<&Token>", doc):
        raise RuntimeError("document.rs: get_token(&self, usize) -> Option<&Token> not found")
    if not re.search(r"pub\s+fn\s+tokens\s*\(\s*&self\s*\)\s*->\s*impl\s+Iterator<Item\s*=\s*&Token>", doc):
        raise RuntimeError("document.rs: tokens(&self) -> impl Iterator<Item = &Token> not found")
    return tok_iters, opt_toks


def fns_of(code):
    """every fn of the file: (name, params text, body start, body end)"""
    out = []
    for m in re.finditer(r"\bfn\s+(\w+)\s*(?:<[^>(]*>)?\s*\(", code):
        depth, j = 0, m.end() - 1
        while j < len(code):
            if code[j] == "(":
                depth += 1
            elif code[j] == ")":
                depth -= 1
                if depth == 0:
                    break
            j += 1
        k = j
        while k < len(code) and code[k] not in "{;":
            k += 1
        if k >= len(code) or code[k] == ";":
            continue
        out.append((m.group(1), code[m.end():j], k + 1, match_brace(code, k)))
    return out


def params_of(text):
    out = []
    for p in top_fields(text):
        if p in ("&self", "&mutself", "self", "mutself"):
            continue
        m = re.fullmatch(r"(?:mut)?(\w+):(.*)", p)
        if m:
            out.append((m.group(1), m.group(2)))
        else:
            out.append((None, p))
    return out


class Ctx:
    def __init__(self, body, D, params, tok_iters, opt_toks, caller=None, fname=None):
        self.body, self.D, self.params = body, D, params
        self.tok_iters, self.opt_toks = tok_iters, opt_toks
        self.caller, self.fname = caller, fname      # for a helper: the ctx of `fn lint`, the helper's name
        self.word_guards = []                        # phase 7: with_len(1) expressions of this body guarded by kind.is_word()

    # ---- bindings ----
    def binding(self, V, pos):
        """nearest binding occurrence of V that starts before pos: (kind, data, start)"""
        b, best = self.body, None
        v = re.escape(V)

        def take(kind, data, start):
            nonlocal best
            if start < pos and (best is None or start > best[2]):
                best = (kind, data, start)
        for m in re.finditer(r"\blet\s+(?:mut\s+)?" + v + r"\s*(?::[^=;]+)?=(?!=)", b):
            j, depth = m.end(), 0
            while j < len(b):
                c = b[j]
                if c in "([{":
                    depth += 1
                elif c in ")]}":
                    depth -= 1
                elif c == ";" and depth == 0:
                    break
                j += 1
            if j < pos:
                take("let", re.sub(r"\s+", "", b[m.end():j]), m.start())
            else:
                take("unknown", None, m.start())
        for m in re.finditer(r"\b(?:if\s+let|while\s+let|let)\s+Some\(\s*" + v + r"\s*\)\s*=(?!=)", b):
            j, depth = m.end(), 0
            while j < len(b):
                c = b[j]
                if c in "([":
                    depth += 1
                elif c in ")]":
                    depth -= 1
                elif depth == 0 and (c == "{" or b[j:j + 4] == "else"):
                    break
                j += 1
            take("letsome", re.sub(r"\s+", "", b[m.end():j]), m.start())
        for m in re.finditer(r"\b(?:if\s+let|while\s+let|let)\s+Some\(\s*\(([\w\s,]*)\)\s*\)\s*=(?!=)([^{;]*?)(?:\{|\belse\b)", b):
            if V in re.findall(r"\w+", m.group(1)):
                take("sometuple", re.sub(r"\s+", "", m.group(2)), m.start())
        for m in re.finditer(r"\bwhile\s+let\s*\(\s*Some\(\s*\(\s*\w+\s*,\s*(\w+)\s*\)\s*\)\s*,\s*Some\(\s*\(\s*\w+\s*,\s*(\w+)\s*\)\s*\)\s*\)\s*=\s*\(\s*(\w+)\.next\(\)\s*,\s*(\w+)\.peek\(\)\s*\)\s*\{", b):
            if V in (m.group(1), m.group(2)) and m.group(3) == m.group(4):
                take("zipiter", m.group(3), m.start())
        for m in re.finditer(r"\bfor\s+(\w+|\([^)]*\))\s+in\s+([^{]*?)\{", b):
            names = re.findall(r"\w+", m.group(1))
            if V in names:
                take("for", (re.sub(r"\s+", "", m.group(1)), re.sub(r"\s+", "", m.group(2))), m.start())
        for m in re.finditer(r"\|([\w\s,()&:]*)\|", b):
            if re.search(r"\b" + v + r"\b", m.group(1)) and self.in_scope("closure", m.start(), m.end(), pos):
                take("closure", (re.sub(r"\s+", "", m.group(1)), m.start()), m.start())
        # any other pattern that binds V
        for m in re.finditer(r"\b(?:if\s+let|while\s+let|let)\s+[^=;]*\b" + v + r"\b[^=;]*=(?!=)", b):
            if best is None or m.start() != best[2]:
                if not re.match(r"(?:if\s+let|while\s+let|let)\s+(?:(?:mut\s+)?" + v + r"\s*(?::[^=;]+)?=|Some\(\s*" + v + r"\s*\)\s*=|Some\(\s*\([\w\s,]*\)\s*\)\s*=|\(\s*Some\(\s*\(\s*\w+\s*,\s*\w+\s*\)\s*\)\s*,\s*Some\(\s*\(\s*\w+\s*,\s*\w+\s*\)\s*\)\s*\)\s*=)", b[m.start():m.end()]):
                    take("unknown", None, m.start())
        for m in re.finditer(r"[(,|]\s*" + v + r"\s*[,)][^;{}=]*=>|\bSome\(\s*" + v + r"\s*\)\s*=>", b):
            take("unknown", None, m.start())
        if best is None:
            for i, (n, t) in enumerate(self.params):
                if n == V:
                    return ("param", (i, t), -1)
        return best

    def in_scope(self, kind, start, hend, pos):
        """closure: pos lies inside the closure's body (a block, or an expression up to the `,` / `)` that closes the call)"""
        b = self.body
        j = hend
        while j < len(b) and b[j].isspace():
            j += 1
        if j < len(b) and b[j] == "{":
            return j < pos <= match_brace(b, j)
        depth = 0
        while j < len(b):
            c = b[j]
            if c in "([{":
                depth += 1
            elif c in ")]}":
                if depth == 0:
                    break
                depth -= 1
            elif c in ",;" and depth == 0:
                break
            j += 1
        return hend <= pos <= j

    # ---- slices ----
    def slice_root(self, S, pos, depth=0):
        """S names a token slice of the document -> 'RDocTok' (the document itself) | RChunk | RSentence | RParagraph | RHelper | None"""
        if depth > 4:
            return None
        if self.D is not None and S == self.D:
            return "RDocTok" if self.binding(S, pos) is None else None
        bd = self.binding(S, pos)
        if bd is None:
            return None
        kind, data, start = bd
        if kind == "for":
            pat, ex = data
            m = re.fullmatch(r"(\w+)\.(iter_chunks|iter_sentences|iter_paragraphs)\(\)", ex)
            if pat == S and m and self.slice_root(m.group(1), start, depth + 1):
                return SLICE_ITERS[m.group(2)]
            return None
        if kind == "param":
            i, t = data
            if t == "&[Token]" and self.caller is not None:
                return self.helper_arg(i, "slice")
            if t in ("&Document", "&crate::Document"):
                return self.helper_arg(i, "doc")
        return None

    def helper_arg(self, i, what):
        calls = list(re.finditer(r"\b(?:self\.|Self::)?" + re.escape(self.fname) + r"\(", self.caller.body))
        if not calls:
            return None
        for cm in calls:
            depth, j = 0, cm.end() - 1
            while True:
                if self.caller.body[j] in "([{":
                    depth += 1
                elif self.caller.body[j] in ")]}":
                    depth -= 1
                    if depth == 0:
                        break
                j += 1
            args = top_fields(self.caller.body[cm.end():j])
            if i >= len(args):
                return None
            a = args[i].lstrip("&")
            if what == "tok":
                if not (re.fullmatch(r"\w+", a) and self.caller.tok_root(a, cm.start()) not in (None, "ROtherRoot")):
                    return None
            elif what == "slice":
                m = re.fullmatch(r"(\w+)(?:\[[^\[\]]*\.\.[^\[\]]*\])?", a)
                if not (m and self.caller.slice_root(m.group(1), cm.start())):
                    return None
            else:
                if a != self.caller.D:
                    return None
        return "RHelper" if what != "doc" else "RDocTok"

    def tok_of_slice(self, S, pos):
        r = self.slice_root(S, pos)
        return r if r else "ROtherRoot"

    # ---- tokens ----
    def opt_tok_expr(self, r, pos):
        """r (normalised) is an Option<&Token> made of a token of the document"""
        m = re.fullmatch(r"(\w+)\.get_token\([^()]*\)", r)
        if m:
            return "RDocTok" if self.slice_root(m.group(1), pos) == "RDocTok" else "ROtherRoot"
        m = re.fullmatch(r"&?(\w+)(\[[^\[\]]*\.\.[^\[\]]*\])?\.(\w+)\(\)", r)
        if m and m.group(3) in self.opt_toks:
            return self.tok_of_slice(m.group(1), pos)
        m = re.fullmatch(r"\([^()]*\)\.then\(\|\|(.*)\)", r)
        if m:
            return self.tok_expr(m.group(1), pos)
        if r == "None":
            return "none"
        return "ROtherRoot"

    def tok_expr(self, r, pos):
        """r (normalised) is a &Token of the document"""
        m = re.fullmatch(r"(.*)(?:\.unwrap\(\)|\?)", r)
        if m:
            inner = m.group(1)
            if re.fullmatch(r"\w+", inner):
                return self.opt_tok_var(inner, pos)
            return self.opt_tok_expr(inner, pos)
        m = re.fullmatch(r"&(\w+)\[([^\[\]]+)\]", r)
        if m and ".." not in m.group(2):
            return self.tok_of_slice(m.group(1), pos)
        return "ROtherRoot"

    def opt_tok_var(self, V, pos):
        bd = self.binding(V, pos)
        if bd and bd[0] == "let":
            r = self.opt_tok_expr(bd[1], bd[2])
            return r if r != "none" else "ROtherRoot"
        return "ROtherRoot"

    def tok_root(self, A, pos, depth=0):
        """A: token expression used as `A.span`: V | V.unwrap() | V.k | V.k.unwrap()"""
        if depth > 4:
            return "ROtherRoot"
        m = re.fullmatch(r"(\w+)\.(\d+)(\.unwrap\(\))?", A)
        if m:
            return self.tuple_field(m.group(1), int(m.group(2)), bool(m.group(3)), pos)
        m = re.fullmatch(r"(\w+)\.unwrap\(\)", A)
        if m:
            return self.opt_tok_var(m.group(1), pos)
        if not re.fullmatch(r"\w+", A):
            return "ROtherRoot"
        bd = self.binding(A, pos)
        if bd is None:
            return "ROtherRoot"
        kind, data, start = bd
        if kind == "let":
            m = re.fullmatch(r"(\w+)\.unwrap\(\)", data)
            if m:
                return self.opt_tok_var(m.group(1), start)
            return self.tok_expr(data, start)
        if kind == "letsome":
            r = self.opt_tok_expr(data, start)
            return r if r != "none" else "ROtherRoot"
        if kind == "for":
            pat, ex = data
            m = re.fullmatch(r"(\w+)\.(\w+)\(\)(\.tuple_windows\(\))?", ex)
            if not m or m.group(2) not in self.tok_iters:
                return "ROtherRoot"
            if m.group(3):
                if not re.fullmatch(r"\(\w+(?:,\w+)*\)", pat):
                    return "ROtherRoot"
            elif pat != A:
                return "ROtherRoot"
            return self.tok_of_slice(m.group(1), start)
        if kind == "sometuple":
            m = re.fullmatch(r"(\w+)\.(\w+)\(\)\.tuple_windows\(\)\.next\(\)", data)
            if m and m.group(2) in self.tok_iters:
                return self.tok_of_slice(m.group(1), start)
            return "ROtherRoot"
        if kind == "zipiter":
            # items of I are (index, &Token) pairs: I := S.iter_<x>_indices().zip(S.iter_<y>s()).peekable()
            bi = self.binding(data, start)
            if bi and bi[0] == "let":
                m = re.fullmatch(r"(\w+)\.iter_\w+_indices\(\)\.zip\((\w+)\.(\w+)\(\)\)\.peekable\(\)", bi[1])
                if m and m.group(3) in self.tok_iters:
                    return self.tok_of_slice(m.group(2), bi[2])
            return "ROtherRoot"
        if kind == "closure":
            pat, cpos = data
            if pat != A:
                return "ROtherRoot"
            return self.closure_receiver(cpos)
        if kind == "param":
            i, t = data
            if t == "&Token" and self.caller is not None:
                return self.helper_arg(i, "tok") or "ROtherRoot"
        return "ROtherRoot"

    def closure_receiver(self, cpos):
        """the closure at cpos is an argument of .map / .filter / .filter_map in a chain S.iter_x()[.filter(..)]* : its parameter
        is a token of S"""
        t = self.body[:cpos].rstrip()
        m = re.search(r"\.\s*(map|filter|filter_map|for_each|find|any|all)\s*\(\s*$", t)
        if not m:
            return "ROtherRoot"
        t = t[:m.start()].rstrip()
        for _ in range(6):
            if not t.endswith(")"):
                return "ROtherRoot"
            depth, j = 0, len(t) - 1
            while j >= 0:
                if t[j] == ")":
                    depth += 1
                elif t[j] == "(":
                    depth -= 1
                    if depth == 0:
                        break
                j -= 1
            head = t[:j].rstrip()
            mm = re.search(r"(\w+)\s*\.\s*(\w+)$", head)
            inner = t[j + 1:len(t) - 1].strip()
            mm2 = re.search(r"\.\s*(\w+)$", head)
            if mm and mm.group(2) in self.tok_iters and inner == "":
                return self.tok_of_slice(mm.group(1), cpos)
            if mm2 and mm2.group(1) == "filter":
                t = head[:mm2.start()].rstrip()
                continue
            return "ROtherRoot"
        return "ROtherRoot"

    def tuple_field(self, V, k, unwrapped, pos):
        bd = self.binding(V, pos)
        if not bd or bd[0] != "let" or not (bd[1].startswith("(") and bd[1].endswith(")")):
            return "ROtherRoot"
        comps = top_fields(bd[1][1:-1])
        if k >= len(comps):
            return "ROtherRoot"
        srcs = [(comps[k], bd[2])]
        for m in re.finditer(r"\b" + re.escape(V) + r"\." + str(k) + r"\s*=(?!=)([^;]*);", self.body):
            srcs.append((re.sub(r"\s+", "", m.group(1)), m.start()))
        roots = []
        for e, p in srcs:
            r = self.opt_tok_expr(e, p) if unwrapped else self.tok_expr(e, p)
            if r == "none":
                continue
            roots.append(r)
        if not roots or "ROtherRoot" in roots:
            return "ROtherRoot"
        return roots[0]

    # ---- phase 7: the guard `if !T.kind.is_word() { continue; }` between the binding of T and the use at `pos` ----
    def word_guarded(self, tokvar, pos):
        g = None
        for m in re.finditer(r"\bif\s*!\s*" + re.escape(tokvar) + r"\.kind\.is_word\(\)\s*\{\s*continue\s*;\s*\}", self.body[:pos]):
            g = m
        if g is None:
            return False
        between = self.body[g.end():pos]
        # T is not bound again after the guard, and the use is in the guard's block or nested inside it
        if re.search(r"(\blet\s+(mut\s+)?|\bSome\(\s*|\bfor\s+|\|\s*)" + re.escape(tokvar) + r"\b", between):
            return False
        depth = 0
        for ch in between:
            if ch == "{":
                depth += 1
            elif ch == "}":
                depth -= 1
                if depth < 0:
                    return False
        return True

    # ---- span expressions ----
    def classify(self, expr, pos, depth=0):
        """-> [(dsrc, root, text)]"""
        expr = expr.lstrip("&")
        TOKX = r"(\w+(?:\.\d+)?(?:\.unwrap\(\))?)"
        if re.fullmatch(r"\w+", expr) and depth < 3:
            defs = let_defs(self.body, expr)
            if not defs:
                return [("DUnknown", "ROtherRoot", expr)]
            out = []
            for d in defs:
                out.extend((c, r, expr + ":=" + t) for c, r, t in self.classify(d, pos, depth + 1))
            return out
        m = re.fullmatch(r"Span::new\(" + TOKX + r"\.span\.start," + TOKX + r"\.span\.end\)", expr)
        if m:
            ra, rb = self.tok_root(m.group(1), pos), self.tok_root(m.group(2), pos)
            return [("DBetween", ra if "ROtherRoot" not in (ra, rb) else "ROtherRoot", expr)]
        m = re.fullmatch(r"Span::new_with_len\(" + TOKX + r"\.span\.end,2\)\.pulled_by\(2\)(?:\.unwrap\(\)|\?)?", expr)
        if m:
            return [("DSuffix", self.tok_root(m.group(1), pos), expr)]
        m = re.fullmatch(TOKX + r"\.span\.with_len\(1\)", expr)
        if m:
            # phase 7: is the construction dominated by `if !T.kind.is_word() { continue; }` (recorded only for a direct
            # field expression in the body that binds T; anything else stays unguarded and the table theorem fails)
            if depth == 0 and re.fullmatch(r"\w+", m.group(1)) and self.word_guarded(m.group(1), pos):
                self.word_guards.append(expr)
            return [("DWithLen1", self.tok_root(m.group(1), pos), expr)]
        m = re.fullmatch(r"(\w+)(?:\[[^\[\]]*\.\.[^\[\]]*\])?\.span\(\)(?:\?|\.unwrap\(\))", expr)
        if m:
            return [("DHull", self.tok_of_slice(m.group(1), pos), expr)]
        m = re.fullmatch(TOKX + r"\.span", expr)
        if m:
            return [("DTok", self.tok_root(m.group(1), pos), expr)]
        return [("DUnknown", "ROtherRoot", expr)]


WORD_GUARDS = {}     # phase 7: rule -> [with_len(1) expressions of fn lint guarded by `if !T.kind.is_word() { continue; }`]


def struct_rule_bodies(repo):
    WORD_GUARDS.clear()
    d = os.path.join(repo, "harper-core", "src", "linting")
    tok_iters, opt_toks = api(repo)
    rows = []
    for f in sorted(os.listdir(d)):
        if not f.endswith(".rs") or f in FRAMEWORK:
            continue
        code = strip_comments(strip_tests(open(os.path.join(d, f), encoding="utf-8").read()))
        impls = list(IMPL_L.finditer(code))
        if not impls:
            if re.search(r"\bLinter\s+for\b", code):
                raise RuntimeError("%s: an `impl .. Linter for` of unknown shape" % f)
            continue
        if len(impls) != 1:
            raise RuntimeError("%s: more than one `impl Linter for` in one file" % f)
        im = impls[0]
        iend = match_brace(code, im.end() - 1)
        ms = [m for m in LINTFN.finditer(code) if im.end() <= m.start() < iend]
        if len(ms) != 1:
            raise RuntimeError("%s: impl Linter for %s: fn lint of unknown signature" % (f, im.group(1)))
        lm = ms[0]
        lstart, lend = lm.end(), match_brace(code, lm.end() - 1)
        main = Ctx(code[lstart:lend], lm.group(1), [], tok_iters, opt_toks)
        fns = fns_of(code)
        sites = []
        for sm in re.finditer(r"\bLint\s*\{", code):
            before = code[max(0, sm.start() - 40):sm.start()]
            if re.search(r"\b(impl|struct|for)\s+$", before):
                continue
            j = match_brace(code, sm.end() - 1)
            sp = None
            for fld in top_fields(code[sm.end():j]):
                if fld == "span":
                    sp = "span"
                elif fld.startswith("span:"):
                    sp = fld[5:]
            if sp is None:
                sites.append(("DUnknown", "ROtherRoot", "Lint{..} without a span field"))
                continue
            if lstart <= sm.start() < lend:
                sites.extend(main.classify(sp, sm.start() - lstart))
                continue
            encl = [fn for fn in fns if fn[2] <= sm.start() < fn[3]]
            if not encl:
                sites.append(("DUnknown", "ROtherRoot", sp))
                continue
            name, ptext, bs, be = min(encl, key=lambda fn: fn[3] - fn[2])
            h = Ctx(code[bs:be], None, params_of(ptext), tok_iters, opt_toks, caller=main, fname=name)
            sites.extend((c, r, name + "():" + t) for c, r, t in h.classify(sp, sm.start() - bs))
        if not sites:
            raise RuntimeError("%s: impl Linter for %s constructs no Lint in its file" % (f, im.group(1)))
        rows.append((f, im.group(1), sites))
        WORD_GUARDS[im.group(1)] = list(main.word_guards)
    if len(rows) < 15:
        raise RuntimeError("c03structroots: only %d `impl Linter for` found" % len(rows))
    return rows


def whole_document_nonrow_registrations(repo, rows):
    """phase 7: the rules new_curated registers as WHOLE-DOCUMENT rules (`add`) that are not `impl Linter for` rows:
    -> [(registered name, [PatternLinter types whose blanket impl makes the lints])]; raises on any other kind"""
    d = os.path.join(repo, "harper-core", "src", "linting")
    norm = lambda t: re.sub(r"\s+", "", t)
    rd = lambda *p: strip_comments(strip_tests(open(os.path.join(d, *p), encoding="utf-8").read()))
    lg = rd("lint_group.rs")
    if "macro_rules!insert_struct_rule{($rule:ident,$default_config:expr)=>{out.add(stringify!($rule),Box::new($rule::default()));" not in norm(lg):
        raise RuntimeError("lint_group.rs: insert_struct_rule! of unknown shape")
    pl = norm(rd("pattern_linter.rs"))
    if ("impl<L>LinterforLwhereL:PatternLinter,{fnlint(&mutself,document:&Document)->Vec<Lint>{letmutlints=Vec::new();"
            "letsource=document.get_source();forchunkindocument.iter_chunks(){lints.extend(run_on_chunk(self,chunk,source));}lints}") not in pl:
        raise RuntimeError("pattern_linter.rs: the blanket `impl Linter for L: PatternLinter` has an unknown shape")
    ml = norm(rd("merge_linters.rs"))
    if ("fnlint(&mutself,document:&Document)->Vec<Lint>{letmutlints=Vec::new();$(lints.extend(self.[<$linter:snake>].lint(document));)*"
            "remove_overlaps(&mutlints);lints}") not in ml:
        raise RuntimeError("merge_linters.rs: merge_linters! has an unknown shape")
    pats, merges = set(), {}
    for root, _, files in os.walk(d):
        for f in sorted(files):
            if not f.endswith(".rs"):
                continue
            code = strip_comments(strip_tests(open(os.path.join(root, f), encoding="utf-8").read()))
            pats.update(re.findall(r"\bimpl(?:<[^>]*>)?\s+PatternLinter\s+for\s+(\w+)", code))
            if f != "merge_linters.rs":
                for m in re.finditer(r"\bmerge_linters!\s*[\(\{]\s*(\w+)\s*=>\s*([\w\s,]+?)\s*=>", code):
                    merges[m.group(1)] = [x.strip() for x in m.group(2).split(",") if x.strip()]
    rowset = {n for _, n, _ in rows}
    names = re.findall(r"\binsert_struct_rule!\(\s*(\w+)\s*,", lg) + re.findall(r'\bout\.add\(\s*"(\w+)"', lg)
    if len(re.findall(r"\.add\(", lg)) != len(re.findall(r'\bout\.add\(\s*(?:"\w+"|stringify!\(\$rule\))', lg)):
        raise RuntimeError("lint_group.rs: an `.add(` registration of unknown shape")
    out = []
    for n in names:
        if n in rowset:
            continue
        if n in pats:
            out.append((n, [n]))
        elif n in merges and merges[n] and all(x in pats for x in merges[n]):
            out.append((n, merges[n]))
        else:
            raise RuntimeError("lint_group.rs: whole-document rule %s is neither an `impl Linter for` row, a PatternLinter nor a merge of PatternLinters" % n)
    # groups merged into the curated group: their `.add(` registrations (add_pattern_linter ones go through the chunk cache: c03roots.py)
    for m in re.finditer(r"\bout\.merge_from\(\s*&mut\s+(\w+)::lint_group\(", lg):
        g = rd(m.group(1) + ".rs")
        adds = re.findall(r"\.add\(", g)
        if not adds:
            continue
        cc = norm(g)
        if len(adds) != 1 or "$group.add($name,Box::new(MapPhraseLinter::new_closed_compound($bad,$good)),);" not in cc or "MapPhraseLinter" not in pats:
            raise RuntimeError("%s.rs: an `.add(` registration of unknown shape" % m.group(1))
        out.append((m.group(1) + "::lint_group", ["MapPhraseLinter"]))
    return out


def cp(s):
    return "[" + "; ".join(str(ord(c)) for c in s) + "]"


def generate(repo):
    rows = struct_rule_bodies(repo)
    q = lambda t: t.replace('"', "'")
    out = ["(* GENERATED by tools/tables/c03structroots.py from /repo/harper-core/src/linting/*.rs — do not edit. *)",
           "From Coq Require Import List String.", "Require Import C03StructRoots.", "Import ListNotations.", "Open Scope string_scope.", "",
           "(* one row per `impl Linter for X` (whole-document rule): file, X, and for every Lint { span } the rule can construct:",
           "   the Rust expression (locals followed to their definitions), its parse, the root of its tokens *)",
           "Definition struct_rule_bodies : list drow := ["]
    out.append(";\n".join('  mkdrow "%s" "%s" [%s]' % (f, n, "; ".join('mkdsite "%s" %s %s' % (q(t)[:150], c, r) for c, r, t in sites))
                          for f, n, sites in rows))
    out.append("].")
    out.append("")
    out.append("(* the same rows for the extracted driver: struct name as code points, the sources *)")
    out.append("Definition struct_rule_srcs : list (list nat * list dsrc) := [")
    out.append(";\n".join("  (%s, [%s])" % (cp(n), "; ".join(c for c, r, t in sites)) for f, n, sites in rows))
    out.append("].")
    out.append("")
    regs = whole_document_nonrow_registrations(repo, rows)
    out.append("(* phase 7: the whole-document registrations of LintGroup::new_curated (insert_struct_rule! / out.add / `.add(` of a merged group)")
    out.append("   that are NOT rows above: name, and the PatternLinter types whose blanket `impl Linter` makes the lints (one = registered")
    out.append("   directly; several = merge_linters!); the shapes of the blanket impl and of merge_linters! are checked by the generator *)")
    out.append("Definition whole_document_nonrow_registrations : list (string * list string) := [")
    out.append(";\n".join('  ("%s", [%s])' % (n, "; ".join('"%s"' % x for x in subs)) for n, subs in regs))
    out.append("].")
    out.append("")
    out.append("(* phase 7: (rule, with_len(1) expression) for every such Lint span of `fn lint` that is dominated by")
    out.append("   `if !T.kind.is_word() { continue; }` on its token T (T not re-bound in between, use inside the guard's block) *)")
    out.append("Definition struct_word_guards : list (string * string) := [")
    out.append(";\n".join('  ("%s", "%s")' % (n, q(e)[:150]) for f, n, sites in rows for e in WORD_GUARDS.get(n, [])))
    out.append("].")
    return "\n".join(out) + "\n"


if __name__ == "__main__":
    for f, n, sites in struct_rule_bodies(sys.argv[1] if len(sys.argv) > 1 else "/repo"):
        for s in sites:
            print(f, n, s)
