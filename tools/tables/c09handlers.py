"""c09handlers — C09: the CALL SKELETON of the harper-ls handlers that coq/Model/Server.v splits into instrs by hand and
coq/Model/C09Seq.v describes in one piece (`sstep`), read from harper-ls/src/backend.rs on every run, so that "the
handler of X is update_document then publish_diagnostics", "the add-word commands load, extend and save under
dict_write_lock and only then re-read the document", "did_change_configuration rebuilds every linter under the lock
and then re-reads and re-publishes every document" ... are theorems about what the code says NOW
(Properties/C09.v: C09_handler_skeletons).

Emits coq/Model/Tables_c09handlers.v with
  c09_skeletons : list (string * list string)
     for did_open / did_change / did_save / did_close / did_change_watched_files / did_change_configuration, the arms
     HarperRecordLint / HarperAddToUserDict / HarperAddToFileDict / HarperIgnoreLint of execute_command, and for
     update_document_from_file / publish_diagnostics / generate_diagnostics / pull_config / update_document /
     use_ident_dict:  the events of the body in source order, where an event is
       self.<method>(            -> "<method>"
       self.client.configuration( -> "client.configuration"   (the workspace/configuration round-trip of pull_config)
       use_ident_dict(           -> "use_ident_dict"         (calls, not the definition)
       Document::new(            -> "Document::new"
       self.<field>.lock|read|write(   -> "<field>.<op>"      (doc_state.lock, config.read, stats.write, dict_write_lock.lock)
       backend.<method>(         -> "<method>"               (use_ident_dict calls back into the Backend)
       tokio::fs::read_to_string -> "fs.read_to_string"
       send_notification         -> "send"
       <map>.remove( / .retain( / .entry( / .get_mut( / .values_mut( / .keys(   on doc_lock / doc_states -> "docs.<op>"
       drop(doc_lock)            -> "drop(doc_lock)"
       the `}` that ends the block a `let _guard = ...` is bound in -> "drop(_guard)"
       return inside the version check of update_document            -> "return(outdated)"
       for loop header `for <x> in <expr>`                           -> "for"
Raises (Shape) when a function or arm is missing or occurs twice."""
import os, re, sys

HERE = os.path.dirname(os.path.abspath(__file__))
sys.path.insert(0, HERE)
import effects as E  # noqa: E402

Shape = E.Shape

HANDLERS = ["did_open", "did_change", "did_save", "did_close", "did_change_watched_files", "did_change_configuration"]
HELPERS = ["update_document_from_file", "publish_diagnostics", "generate_diagnostics", "pull_config", "update_document", "use_ident_dict"]
ARMS = ["HarperRecordLint", "HarperAddToUserDict", "HarperAddToFileDict", "HarperIgnoreLint"]

EVENT = re.compile(
    r"self\s*\.\s*(?P<fld>\w+)\s*\.\s*(?P<op>lock|read|write)\s*\("
    r"|(?P<cfgreq>self\s*\.\s*client\s*\.\s*configuration\s*\()"
    r"|self\s*\.\s*(?P<meth>\w+)\s*\("
    r"|(?<!fn )(?P<uid>\buse_ident_dict\s*\()"
    r"|(?P<parse>Document\s*::\s*new\s*\()"
    r"|backend\s*\.\s*(?P<bmeth>\w+)\s*\("
    r"|(?P<fs>tokio\s*::\s*fs\s*::\s*read_to_string)"
    r"|(?P<send>send_notification)"
    r"|(?:doc_lock|doc_states)\s*\.\s*(?P<dop>remove|retain|entry|get_mut|values_mut|keys)\s*\("
    r"|(?P<drop>drop\s*\(\s*doc_lock\s*\))"
    r"|(?P<guard>let\s+_guard\b)"
    r"|(?P<ret>if\s+new\s*<\s*current\s*\{\s*return)"
    r"|(?P<for>\bfor\s+\w+\s+in\b)"
)


def q(s):
    return '"' + s.replace('"', '""') + '"'


def events(skel, a, b, exclude=()):
    """events of skel[a:b] in source order, skipping the ranges in `exclude` (nested fns)"""
    depth = E.depth_array(skel)
    out = []
    for m in EVENT.finditer(skel, a, b):
        if any(x <= m.start() < y for x, y in exclude):
            continue
        if m.group("fld"):
            out.append((m.start(), "%s.%s" % (m.group("fld"), m.group("op"))))
        elif m.group("cfgreq"):
            out.append((m.start(), "client.configuration"))
        elif m.group("meth"):
            out.append((m.start(), m.group("meth")))
        elif m.group("uid"):
            out.append((m.start(), "use_ident_dict"))
        elif m.group("parse"):
            out.append((m.start(), "Document::new"))
        elif m.group("bmeth"):
            out.append((m.start(), m.group("bmeth")))
        elif m.group("fs"):
            out.append((m.start(), "fs.read_to_string"))
        elif m.group("send"):
            out.append((m.start(), "send"))
        elif m.group("dop"):
            out.append((m.start(), "docs." + m.group("dop")))
        elif m.group("drop"):
            out.append((m.start(), "drop(doc_lock)"))
        elif m.group("guard"):
            # the guard lives to the end of the block it is bound in
            d = depth[m.start()]
            j = m.start()
            while j < b and depth[j] >= d:
                j += 1
            if j >= b:
                raise Shape("backend.rs: the block of `let _guard` at %d does not end inside its function" % m.start())
            out.append((j, "drop(_guard)"))
        elif m.group("ret"):
            out.append((m.start(), "return(outdated)"))
        elif m.group("for"):
            out.append((m.start(), "for"))
    out.sort()
    return [e for _, e in out]


def generate(repo):
    path = os.path.join(repo, "harper-ls/src/backend.rs")
    if not os.path.exists(path):
        raise Shape("harper-ls/src/backend.rs not found")
    src = open(path, encoding="utf-8").read()
    code, skel = E.blank(src)
    fns = E.functions(skel)
    rows = []

    def one(name):
        f = [x for x in fns if x[0] == name]
        if len(f) != 1:
            raise Shape("backend.rs: %d functions named %s" % (len(f), name))
        return f[0]

    for name in HANDLERS + HELPERS:
        n, a, b = one(name)
        nested = [(x, y) for (m, x, y) in fns if a < x and y < b]
        rows.append((name, events(skel, a, b, nested)))
    # the arms of execute_command
    n, a, b = one("execute_command")
    arms = []
    for m in re.finditer(r'"(\w*)"\s*=>', code[a:b]):
        arms.append((m.group(1), a + m.start()))
    names = [x for x, _ in arms]
    for arm in ARMS + ["HarperOpen"]:
        if names.count(arm) != 1:
            raise Shape("backend.rs: execute_command has %d arms %s" % (names.count(arm), arm))
    if set(names) != set(ARMS + ["HarperOpen"]):
        raise Shape("backend.rs: execute_command has arms %s" % sorted(set(names)))
    arms.sort(key=lambda x: x[1])
    # the end of the match: the first wildcard arm `_ => ()` after the last literal arm
    wm = re.search(r"\n\s*_\s*=>", skel[arms[-1][1]:b])
    if not wm:
        raise Shape("backend.rs: execute_command has no wildcard arm after the command arms")
    ends = [p for _, p in arms[1:]] + [arms[-1][1] + wm.start()]
    for (arm, start), end in zip(arms, ends):
        if arm in ARMS:
            rows.append(("execute_command/" + arm, events(skel, start, end)))
    # before the match: nothing but argument parsing (no awaits of the Backend)
    pre = events(skel, a, arms[0][1])
    rows.append(("execute_command/<before the match>", pre))
    out = [
        "(* GENERATED by tools/tables/c09handlers.py from /repo (harper-ls/src/backend.rs) — do not edit.",
        "   Regenerated on every ./check C09. *)",
        "From Coq Require Import List String.",
        "Import ListNotations.",
        "Open Scope string_scope.",
        "",
        "(* handler / helper / arm of execute_command, its events in source order (see tools/tables/c09handlers.py) *)",
        "Definition c09_skeletons : list (string * list string) :=",
        "  [" + ";\n   ".join("(%s, [%s])" % (q(n), "; ".join(q(e) for e in ev)) for n, ev in rows) + "].",
        "",
    ]
    return "\n".join(out)


if __name__ == "__main__":
    print(generate(sys.argv[1] if len(sys.argv) > 1 else "/repo"))
