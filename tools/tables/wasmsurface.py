"""wasmsurface — (C16, deepening) what harper-wasm exports and how the enums of the JSON are read and written:
  * every `pub fn` of harper-wasm/src/lib.rs that wasm-bindgen exports (methods as Type::name, the
    to_json/from_json pair of make_serialize_fns_for! per type it is invoked for), in source order;
  * the bodies (white space normalised) of the exports Model/C16Api.v models as compositions;
  * LintKind / Suggestion / Language: the variants with their payload types, and the tables serde reads and
    writes the variant names with: derived Serialize/Deserialize on a plain enum = the variant names
    themselves; `#[serde(try_from = "String")]` = the arms of LintKind::new_from_str (through the TryFrom impl);
    any other #[serde(..)] attribute, or a payload on a LintKind variant, is a shape this module does not know.
Raises on an unknown shape."""
import os, re, importlib.util

def _wasmapi():
    p = os.path.join(os.path.dirname(os.path.abspath(__file__)), "wasmapi.py")
    spec = importlib.util.spec_from_file_location("wasmapi", p)
    mod = importlib.util.module_from_spec(spec); spec.loader.exec_module(mod)
    return mod

def norm(s):
    return re.sub(r"\s+", " ", s).strip()

def coq_str(s):
    return '"%s"' % s.replace('"', '""')

def coq_pairs(ps):
    return "[" + "; ".join("(%s, %s)" % (coq_str(a), coq_str(b)) for a, b in ps) + "]"

def exported_functions(code):
    """walk the file: track the enclosing `impl X {` (only inherent impls), collect `pub fn name`"""
    out = []
    macro_fns = []
    m = re.search(r"macro_rules!\s*make_serialize_fns_for\s*\{", code)
    if not m:
        raise RuntimeError("cannot find macro make_serialize_fns_for")
    wa = _wasmapi()
    mbody = wa.fn_body(code, r"macro_rules!\s*make_serialize_fns_for\s*\{", "make_serialize_fns_for")
    macro_fns = re.findall(r"pub fn (\w+)\(", mbody)
    if macro_fns != ["to_json", "from_json"]:
        raise RuntimeError("make_serialize_fns_for no longer defines exactly to_json, from_json: %r" % macro_fns)
    rest = code.replace(mbody, "{}")
    pos = 0
    cur = None          # (type name, depth at which the impl body ends)
    depth = 0
    token = re.compile(r"make_serialize_fns_for!\((\w+)\)|impl(?:<[^>]*>)?\s+([\w:<>, ]+?)\s*\{|pub(\([^)]*\))?\s+fn\s+(\w+)|[{}]")
    for t in token.finditer(rest):
        s = t.group(0)
        if t.group(1):
            out += ["%s::%s" % (t.group(1), f) for f in macro_fns]
        elif t.group(2) is not None:
            name = t.group(2).strip()
            depth += 1
            if " for " in name:
                cur = (None, depth)       # trait impl: its fns are not wasm exports by themselves
            else:
                cur = (name, depth)
        elif t.group(4):
            if t.group(3):                # pub(crate) fn: not exported
                continue
            if cur and cur[0] is None:
                continue
            out.append("%s::%s" % (cur[0], t.group(4)) if cur else t.group(4))
        elif s == "{":
            depth += 1
        elif s == "}":
            if cur and depth == cur[1]:
                cur = None
            depth -= 1
    if depth != 0:
        raise RuntimeError("unbalanced braces while walking harper-wasm/src/lib.rs")
    return out

def enum_variants_with_payload(body):
    inner = re.sub(r"//[^\n]*", "", body[1:-1])
    inner = re.sub(r"#\[[^\]]*\]", "", inner)
    out = []
    for part in re.split(r",(?![^(]*\))", inner):
        p = part.strip()
        if not p:
            continue
        m = re.match(r"(\w+)\s*(?:\((.*)\))?\s*(=\s*\d+)?$", p, re.S)
        if not m:
            raise RuntimeError("enum variant of unknown shape: %r" % p)
        out.append((m.group(1), norm(m.group(2) or "")))
    return out

def generate(repo):
    wa = _wasmapi()
    rd = lambda rel: open(os.path.join(repo, rel), encoding="utf-8").read()
    wasm_raw = rd("harper-wasm/src/lib.rs")
    wasm = wa.strip_comments(re.sub(r"///[^\n]*", "", wasm_raw))
    fns = exported_functions(wasm)
    if "Linter::lint" not in fns or "to_title_case" not in fns:
        raise RuntimeError("the walk over harper-wasm/src/lib.rs lost Linter::lint / to_title_case: %r" % fns)
    bodies = [
        ("to_title_case", r"pub fn to_title_case\(text: String\) -> String"),
        ("is_likely_english", r"pub fn is_likely_english\(&self, text: String\) -> bool"),
        ("isolate_english", r"pub fn isolate_english\(&self, text: String\) -> String"),
        ("get_default_lint_config_as_json", r"pub fn get_default_lint_config_as_json\(\) -> String"),
        ("generate_stats_file", r"pub fn generate_stats_file\(&self\) -> String"),
        ("import_stats_file", r"pub fn import_stats_file\(&mut self, file: String\) -> Result<\(\), String>"),
        ("get_lint_config_as_json", r"pub fn get_lint_config_as_json\(&self\) -> String"),
        # the exports Model/C16Stats.v models (the JsValue ones as the value / the steps of their _json twin)
        ("summarize_stats", r"pub fn summarize_stats\(&self, start_time: Option<i64>, end_time: Option<i64>\) -> JsValue"),
        ("get_lint_descriptions_as_json", r"pub fn get_lint_descriptions_as_json\(&self\) -> String"),
        ("get_lint_descriptions_as_object", r"pub fn get_lint_descriptions_as_object\(&self\) -> JsValue"),
        ("get_lint_config_as_object", r"pub fn get_lint_config_as_object\(&self\) -> JsValue"),
        ("set_lint_config_from_object", r"pub fn set_lint_config_from_object\(&mut self, object: JsValue\) -> Result<\(\), String>"),
        ("set_lint_config_from_json", r"pub fn set_lint_config_from_json\(&mut self, json: String\) -> Result<\(\), String>"),
        ("get_default_lint_config", r"pub fn get_default_lint_config\(\) -> JsValue"),
    ]
    body_defs = []
    for name, rx in bodies:
        body_defs.append((name, norm(wa.fn_body(wasm, rx, name)[1:-1])))
    # ---- enums
    kind_src = rd("harper-core/src/linting/lint_kind.rs")
    attrs, body = wa.item(kind_src, r"pub enum LintKind\s*\{", "LintKind")
    kinds = enum_variants_with_payload(body)
    if any(p for _, p in kinds):
        raise RuntimeError("a LintKind variant carries a payload: %r" % kinds)
    kind_names = [k for k, _ in kinds]
    inner_serde = [a for a in re.findall(r"#\[[^\]]*\]", body) if "serde" in a]
    if inner_serde:
        raise RuntimeError("#[serde(..)] on a LintKind variant: %r" % inner_serde)
    serde_attrs = [norm(a) for a in attrs if "serde" in a]
    derives = " ".join(a for a in attrs if a.startswith("#[derive"))
    if "Serialize" not in derives or "Deserialize" not in derives:
        raise RuntimeError("LintKind no longer derives Serialize and Deserialize")
    ser_table = [(k, k) for k in kind_names]
    if serde_attrs == []:
        de_table = [(k, k) for k in kind_names]
    elif serde_attrs == ['#[serde(try_from = "String")]']:
        code = wa.strip_comments(kind_src)
        tf = wa.fn_body(code, r"impl TryFrom<String> for LintKind", "impl TryFrom<String> for LintKind")
        if not re.search(r"Self::new_from_str\(&value\)", tf):
            raise RuntimeError("TryFrom<String> for LintKind does not go through new_from_str")
        nfs = wa.fn_body(code, r"pub fn new_from_str\(s: &str\) -> Option<Self>", "LintKind::new_from_str")
        de_table = []
        for m in re.finditer(r'((?:"[^"]*"\s*\|\s*)*"[^"]*")\s*=>\s*LintKind::(\w+)', nfs):
            for s in re.findall(r'"([^"]*)"', m.group(1)):
                de_table.append((s, m.group(2)))
        if not de_table:
            raise RuntimeError("no arms found in LintKind::new_from_str")
    else:
        raise RuntimeError("unknown #[serde(..)] attributes on LintKind: %r" % serde_attrs)
    sattrs, sbody = wa.item(rd("harper-core/src/linting/suggestion.rs"), r"pub enum Suggestion\s*\{", "Suggestion")
    if [a for a in sattrs if "serde" in a] or [a for a in re.findall(r"#\[[^\]]*\]", sbody) if "serde" in a]:
        raise RuntimeError("#[serde(..)] on Suggestion: a shape this module does not know")
    sugs = enum_variants_with_payload(sbody)
    lattrs, lbody = wa.item(wasm_raw, r"pub enum Language\s*\{", "Language")
    if [a for a in lattrs if "serde" in a]:
        raise RuntimeError("#[serde(..)] on Language: a shape this module does not know")
    langs = enum_variants_with_payload(lbody)
    out = ["(* GENERATED by tools/tables/wasmsurface.py from /repo — do not edit. *)",
           "From Coq Require Import List String.", "Import ListNotations.", "Open Scope string_scope.", "",
           "(* every function harper-wasm exports, in source order *)",
           "Definition wasm_exported_functions : list string := %s." % wa.coq_list(fns),
           "(* the bodies of the exports modelled as compositions (Model/C16Api.v), white space normalised *)"]
    for name, b in body_defs:
        out.append("Definition wasm_body_%s : string := %s." % (name, coq_str(b)))
    out += ["(* LintKind: variants; the name serde writes for each variant; the names serde accepts, with the variant each yields *)",
            "Definition lint_kind_enum : list string := %s." % wa.coq_list(kind_names),
            "Definition lint_kind_serialize : list (string * string) := %s." % coq_pairs(ser_table),
            "Definition lint_kind_deserialize : list (string * string) := %s." % coq_pairs(de_table),
            "(* Suggestion / Language: variants with their payload types *)",
            "Definition suggestion_enum : list (string * string) := %s." % coq_pairs(sugs),
            "Definition language_enum : list (string * string) := %s." % coq_pairs(langs)]
    return "\n".join(out) + "\n"
