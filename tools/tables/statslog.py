"""statslog — what C19's model of the statistics log rests on, re-read from the sources on every run:

 * the 256-entry ESCAPE table of the serde_json version pinned in /repo/Cargo.lock (read from the cargo
   registry copy of that exact version) and the letters `write_char_escape` emits — the Coq side proves
   that Model/JsonEscape.escape_class agrees with it entry by entry;
 * the shape of Stats::write / Stats::read (harper-stats/src/lib.rs), of save_stats (harper-ls/src/backend.rs)
   and of generate_stats_file / import_stats_file (harper-wasm/src/lib.rs) that Model/Stats.v mirrors;
 * where the Numbers of a record come from and how floats are read back: lex_number accepts a candidate only
   when its f64 is_finite() (b5c1992), lex_hex_number takes a u64, nothing else in the sources builds a
   Number, and harper-stats builds serde_json with float_roundtrip (abf6ba7).
Raises when a source no longer has the shape it knows."""
import os, re, glob


def strip_comments(code):
    return re.sub(r"//[^\n]*", "", code)


def fn_body(code, rx, rel):
    m = re.search(rx, code)
    if not m:
        raise RuntimeError("cannot find %s in %s" % (rx, rel))
    i = code.find("{", m.end() - 1)
    depth, j = 0, i
    while j < len(code):
        if code[j] == "{":
            depth += 1
        elif code[j] == "}":
            depth -= 1
            if depth == 0:
                break
        j += 1
    return code[i:j + 1]


def serde_json_src(repo):
    lock = open(os.path.join(repo, "Cargo.lock"), encoding="utf-8").read()
    vs = re.findall(r'name = "serde_json"\nversion = "([^"]+)"', lock)
    if len(vs) != 1:
        raise RuntimeError("expected exactly one serde_json in Cargo.lock, found %r" % vs)
    home = os.environ.get("CARGO_HOME", os.path.expanduser("~/.cargo"))
    cands = glob.glob(os.path.join(home, "registry", "src", "*", "serde_json-" + vs[0], "src"))
    if not cands:
        raise RuntimeError("serde_json-%s sources not found in the cargo registry" % vs[0])
    return vs[0], cands[0]


def escape_table(src):
    code = open(os.path.join(src, "ser.rs"), encoding="utf-8").read()
    consts = {}
    for name, val in re.findall(r"const (\w\w): u8 = ([^;]+);", code):
        val = val.strip()
        if val == "0":
            consts[name] = 0
        elif val == "b'\\\\'":
            consts[name] = 92
        elif val == "b'\"'":
            consts[name] = 34
        elif re.fullmatch(r"b'(.)'", val):
            consts[name] = ord(val[2])
        else:
            raise RuntimeError("unrecognised escape constant %s = %s" % (name, val))
    m = re.search(r"static ESCAPE: \[u8; 256\] = \[(.*?)\];", code, re.S)
    if not m:
        raise RuntimeError("ESCAPE table not found in serde_json ser.rs")
    toks = re.findall(r"\b(\w\w)\b\s*,", strip_comments(m.group(1)))
    if len(toks) != 256 or any(t not in consts for t in toks):
        raise RuntimeError("ESCAPE table has an unexpected shape (%d entries)" % len(toks))
    table = [consts[t] for t in toks]
    # write_char_escape: the two-byte escapes and the \u00XX form with lower-case hex digits
    body = fn_body(code, r"fn write_char_escape<W>", "serde_json ser.rs")
    want = {"Quote": r'b"\\\""', "ReverseSolidus": r'b"\\\\"', "Backspace": r'b"\\b"', "FormFeed": r'b"\\f"',
            "LineFeed": r'b"\\n"', "CarriageReturn": r'b"\\r"', "Tab": r'b"\\t"'}
    for k, v in want.items():
        if not re.search(r"%s\s*=>\s*%s" % (k, re.escape(v)), body):
            raise RuntimeError("write_char_escape: arm %s is not %s any more" % (k, v))
    if 'b"0123456789abcdef"' not in body or not re.search(r"b'\\\\',\s*b'u',\s*b'0',\s*b'0',\s*HEX_DIGITS\[\(byte >> 4\) as usize\],\s*HEX_DIGITS\[\(byte & 0xF\) as usize\]", body):
        raise RuntimeError("write_char_escape: the \\u00XX arm changed shape")
    # from_escape_table maps the class constants to those arms
    fe = fn_body(code, r"fn from_escape_table\(", "serde_json ser.rs")
    for c, arm in [("BB", "Backspace"), ("TT", "Tab"), ("NN", "LineFeed"), ("FF", "FormFeed"), ("RR", "CarriageReturn"),
                   ("QU", "Quote"), ("BS", "ReverseSolidus"), ("UU", r"AsciiControl\(byte\)")]:
        if not re.search(r"self::%s\s*=>\s*CharEscape::%s" % (c, arm), fe):
            raise RuntimeError("from_escape_table: %s no longer maps to %s" % (c, arm))
    return table


def shape_flags(repo):
    flags = []
    rel = "harper-stats/src/lib.rs"
    code = strip_comments(open(os.path.join(repo, rel), encoding="utf-8").read())
    w = fn_body(code, r"pub fn write\(&self, w: &mut impl Write\)", rel)
    flags.append(("write: one serde_json Serializer per record, compact formatter",
                  bool(re.search(r"for record in &self\.records\s*\{\s*let mut serializer = Serializer::new\(&mut \*w\);\s*record\.serialize\(&mut serializer\)\?;", w))
                  and "use serde_json::Serializer;" in code))
    flags.append(("write: writeln!(w) after every record and nothing else is written",
                  bool(re.search(r"record\.serialize\(&mut serializer\)\?;\s*writeln!\(w\)\?;\s*\}\s*Ok\(\(\)\)\s*\}$", w))))
    r = fn_body(code, r"pub fn read\(r: &mut impl Read\)", rel)
    flags.append(("read: BufReader::lines, each line through serde_json::from_str, first error aborts",
                  bool(re.search(r"let br = BufReader::new\(r\);", r))
                  and bool(re.search(r"for line_res in br\.lines\(\)\s*\{\s*let line = line_res\?;\s*let record: Record = serde_json::from_str\(&line\)\?;\s*records\.push\(record\);\s*\}", r))))
    rel = "harper-ls/src/backend.rs"
    code = strip_comments(open(os.path.join(repo, rel), encoding="utf-8").read())
    s = fn_body(code, r"async fn save_stats\(&self\)", rel)
    flags.append(("save_stats: file opened with append(true).create(true), never truncate",
                  bool(re.search(r"OpenOptions::new\(\)\s*\.read\(true\)\s*\.append\(true\)\s*\.create\(true\)\s*\.open\(&config\.stats_path\)\?", s))
                  and "truncate" not in s))
    flags.append(("save_stats: stats.write into the BufWriter, then flush",
                  bool(re.search(r"stats\.write\(&mut writer\)\?;\s*writer\.flush\(\)\?;", s))))
    rel = "harper-wasm/src/lib.rs"
    code = strip_comments(open(os.path.join(repo, rel), encoding="utf-8").read())
    g = fn_body(code, r"pub fn generate_stats_file\(&self\)", rel)
    flags.append(("generate_stats_file: Stats::write into an empty Vec",
                  bool(re.search(r"let mut output = Vec::new\(\);\s*self\.stats\.write\(&mut output\)\.unwrap\(\);", g))))
    i = fn_body(code, r"pub fn import_stats_file\(&mut self, file: String\)", rel)
    flags.append(("import_stats_file: Stats::read then append to the records held",
                  bool(re.search(r"Stats::read\(&mut read\)", i)) and bool(re.search(r"self\.stats\.records\.append\(&mut new_stats\.records\);", i))))
    # ---- where Numbers come from (the `lexer` contract of C19_text_records_*) and how floats are re-read
    rel = "harper-core/src/lexing/mod.rs"
    code = strip_comments(open(os.path.join(repo, rel), encoding="utf-8").read())
    ln = fn_body(code, r"pub fn lex_number\(source: &\[char\]\)", rel)
    flags.append(("lex_number: a candidate becomes a Number only if its f64 is_finite()",
                  bool(re.search(r"if let Some\(n\) = s\.parse::<f64>\(\)\.ok\(\)\.filter\(\|n\| n\.is_finite\(\)\)\s*\{", ln))
                  and len(re.findall(r"Number\s*\{", ln)) == 1 and bool(re.search(r"Number\s*\{\s*value: n\.into\(\),", ln))
                  and "parse::<f64>" not in ln.replace("s.parse::<f64>().ok().filter(|n| n.is_finite())", "", 1)))
    lh = fn_body(code, r"pub fn lex_hex_number\(source: &\[char\]\)", rel)
    flags.append(("lex_hex_number: the value is a u64 converted to f64",
                  bool(re.search(r"if let Ok\(n\) = u64::from_str_radix\(&s, 16\)\s*\{", lh))
                  and len(re.findall(r"Number\s*\{", lh)) == 1 and bool(re.search(r"Number\s*\{\s*value: OrderedFloat\(n as f64\),", lh))))
    # every struct literal `Number { value: <expr>` outside #[cfg(test)] code, in every crate that sees records
    sites = []
    for crate in ["harper-core", "harper-stats", "harper-ls", "harper-wasm", "harper-comments", "harper-html",
                  "harper-literate-haskell", "harper-typst", "harper-tree-sitter"]:
        for path in glob.glob(os.path.join(repo, crate, "src", "**", "*.rs"), recursive=True):
            c = strip_comments(open(path, encoding="utf-8").read())
            c = c.split("#[cfg(test)]")[0]
            for m in re.finditer(r"\bNumber\s*\{\s*value\s*:", c):
                sites.append(os.path.relpath(path, repo))
            if re.search(r"\.value\s*=[^=]", c) and re.search(r"\bNumber\b", c):
                sites.append(os.path.relpath(path, repo) + " (assigns a .value)")
    flags.append(("no source outside lex_number / lex_hex_number builds a Number value",
                  sorted(sites) == ["harper-core/src/lexing/mod.rs", "harper-core/src/lexing/mod.rs"]))
    rel = "harper-stats/Cargo.toml"
    toml = open(os.path.join(repo, rel), encoding="utf-8").read()
    m = re.search(r"^serde_json\s*=\s*(.*)$", toml, re.M)
    flags.append(("harper-stats builds serde_json with float_roundtrip (its float parser inverts its float printer)",
                  bool(m) and bool(re.search(r"features\s*=\s*\[[^\]]*\"float_roundtrip\"", m.group(1)))))
    return flags


def generate(repo):
    ver, src = serde_json_src(repo)
    table = escape_table(src)
    flags = shape_flags(repo)
    out = ["(* GENERATED by tools/tables/statslog.py from /repo and the pinned serde_json sources — do not edit. *)",
           "From Coq Require Import List String Bool NArith.", "Import ListNotations.", "",
           "Definition serde_json_version : string := \"%s\"%%string." % ver, "",
           "(* serde_json/src/ser.rs: static ESCAPE: [u8; 256]; entry = 0 (not escaped) or the letter after the backslash *)",
           "Definition serde_escape_table : list N := ["]
    rows = []
    for i in range(0, 256, 16):
        rows.append("  " + "; ".join("%d" % v for v in table[i:i + 16]))
    out.append(";\n".join(rows))
    out.append("]%N.")
    out.append("")
    out.append("(* (what Model/Stats.v assumes about the source, does the source still have that shape) *)")
    out.append("Definition stats_source_shape : list (string * bool) := [")
    out.append(";\n".join('  ("%s"%%string, %s)' % (n.replace('"', "'"), "true" if ok else "false") for n, ok in flags))
    out.append("].")
    return "\n".join(out) + "\n"
