"""titlecase — translates the data that Model/TitleCase.v rests on into coq/Model/Tables_titlecase.v:
  * SPECIAL_CONJUNCTIONS of should_capitalize_token              (harper-core/src/title_case.rs)
  * the length bound of `is_short_preposition`                   (`tok.span.len() <= N`)
  * the guarded copy of a proper noun's canonical spelling       (is_case_variant / canonical apostrophe; 41fa706)
  * the case operations applied to output characters             (to_ascii_uppercase / to_ascii_lowercase:
    ASCII-only, one char -> one char; `to_uppercase()`/`to_lowercase()` on an output char would make
    the length theorem false and is reported as `tc_uses_unicode_case_on_output = true`)
  * enum TokenKind (variant order = the kind codes of the model) and the variants that
    TokenKind::is_word_like matches                              (harper-core/src/token_kind.rs)
  * char_to_normalized: the characters mapped to the straight apostrophe  (harper-core/src/char_string.rs)
Raises when a shape is not recognised (the check then reports a broken tie)."""
import os, re


class Shape(Exception):
    pass


def rd(repo, rel):
    return open(os.path.join(repo, rel), encoding="utf-8").read()


def strip_tests(src):
    i = src.find("#[cfg(test)]")
    return src if i < 0 else src[:i]


def strip_comments(src):
    return re.sub(r"//[^\n]*", "", src)


def body_after(src, header_re):
    m = re.search(header_re, src)
    if not m:
        raise Shape("cannot find %r" % header_re)
    i = src.index("{", m.end() - 1)
    depth, j = 0, i
    while j < len(src):
        if src[j] == "{":
            depth += 1
        elif src[j] == "}":
            depth -= 1
            if depth == 0:
                return src[i + 1:j]
        j += 1
    raise Shape("unbalanced braces after %r" % header_re)


KNOWN_KINDS = ["Word", "Punctuation", "Decade", "Number", "Space", "Newline", "EmailAddress", "Url", "Hostname",
               "Unlintable", "ParagraphBreak", "Regexish"]


def generate(repo):
    tc = strip_comments(strip_tests(rd(repo, "harper-core/src/title_case.rs")))
    # ---- SPECIAL_CONJUNCTIONS
    m = re.search(r"static\s+ref\s+SPECIAL_CONJUNCTIONS\s*:\s*HashSet<Vec<char>>\s*=\s*\[(.*?)\]\s*\.iter\(\)\s*"
                  r"\.map\(\|v\|\s*v\.chars\(\)\.collect\(\)\)\s*\.collect\(\)\s*;", tc, re.S)
    if not m:
        raise Shape("SPECIAL_CONJUNCTIONS: shape not recognised")
    words = re.findall(r'"((?:[^"\\]|\\.)*)"', m.group(1))
    if not words or any("\\" in w for w in words):
        raise Shape("SPECIAL_CONJUNCTIONS: unexpected literals %r" % (words,))
    rest = re.sub(r'"(?:[^"\\]|\\.)*"', "", m.group(1))
    if rest.replace(",", "").strip():
        raise Shape("SPECIAL_CONJUNCTIONS: unexpected content %r" % rest)
    # the set is consulted with the lower-cased word
    if not re.search(r"!\s*SPECIAL_CONJUNCTIONS\.contains\(chars_lower\.as_ref\(\)\)", tc):
        raise Shape("SPECIAL_CONJUNCTIONS is no longer consulted with chars_lower")
    # ---- short preposition bound
    m = re.search(r"let\s+is_short_preposition\s*=\s*metadata\.preposition\s*&&\s*tok\.span\.len\(\)\s*<=\s*(\d+)\s*;", tc)
    if not m:
        raise Shape("is_short_preposition: shape not recognised")
    bound = int(m.group(1))
    if not re.search(r"!is_short_preposition\s*&&\s*!metadata\.determiner\s*&&\s*!SPECIAL_CONJUNCTIONS", tc):
        raise Shape("should_capitalize_token: result expression not recognised")
    # ---- case operations on output characters
    body = body_after(tc, r"pub\s+fn\s+make_title_case\s*\(")
    n_up = len(re.findall(r"\.to_ascii_uppercase\(\)", body))
    n_lo = len(re.findall(r"\.to_ascii_lowercase\(\)", body))
    uni = bool(re.search(r"\.to_uppercase\(\)|\.to_lowercase\(\)|\.to_upper\(\)|\.to_lower\(\)", body))
    # the three writes into `output`
    writes = re.findall(r"output\[[^\]]*\]\s*=", body)
    # the copy of the canonical spelling: since 41fa706 guarded per character
    #   .for_each(|(idx, c)| { let canonical = correct_caps[idx];
    #        if is_case_variant(*c, canonical) || (canonical == '\'' && matches!(*c, '’' | '‘' | '＇')) { *c = canonical; } })
    # (the index `correct_caps[idx]` is evaluated BEFORE the guard: the panic behaviour is that of the old code).
    wr_canon_old = bool(re.search(r"for_each\(\|\(idx,\s*c\)\|\s*\*c\s*=\s*correct_caps\[idx\]\)", body))
    m = re.search(r"for_each\(\|\(idx,\s*c\)\|\s*\{\s*let\s+canonical\s*=\s*correct_caps\[idx\]\s*;\s*"
                  r"if\s+is_case_variant\(\*c,\s*canonical\)\s*\|\|\s*"
                  r"\(\s*canonical\s*==\s*'(\\'|[^'\\])'\s*&&\s*matches!\(\s*\*c\s*,([^)]*)\)\s*\)\s*"
                  r"\{\s*\*c\s*=\s*canonical\s*;\s*\}\s*\}\)", body)
    if m:
        guarded = True
        apo_to = 39 if m.group(1) == "\\'" else ord(m.group(1))
        alts = [a.strip() for a in m.group(2).split("|")]
        apo_from = []
        for a in alts:
            mm = re.fullmatch(r"'([^'\\])'", a)
            if not mm:
                raise Shape("canonical copy: unexpected apostrophe alternative %r" % a)
            apo_from.append(ord(mm.group(1)))
        if wr_canon_old:
            raise Shape("canonical copy: both the guarded and the unguarded shape are present")
        # fn is_case_variant(a, b) = same to_lowercase AND same to_uppercase
        cv = body_after(tc, r"fn\s+is_case_variant\s*\(\s*a:\s*char,\s*b:\s*char\s*\)\s*->\s*bool\s*")
        cv_ok = bool(re.fullmatch(r"\s*a\.to_lowercase\(\)\.eq\(b\.to_lowercase\(\)\)\s*&&\s*"
                                  r"a\.to_uppercase\(\)\.eq\(b\.to_uppercase\(\)\)\s*", cv))
        if not cv_ok:
            raise Shape("is_case_variant: shape not recognised: %r" % cv.strip())
    elif wr_canon_old:
        # the shape before 41fa706 (findings FC18a/FC18b): reported through the flags, the theorems then fail
        guarded, cv_ok, apo_to, apo_from = False, False, 39, []
    else:
        raise Shape("canonical copy (for_each over the word's output slice): shape not recognised")
    if len(re.findall(r"correct_caps\[", body)) != 1:
        raise Shape("correct_caps is indexed at an unexpected number of sites")
    first_last = bool(re.search(r"should_capitalize_token\(word,\s*source,\s*dict\)\s*\|\|\s*index\s*==\s*0\s*\|\|\s*"
                                r"word_likes\.peek\(\)\.is_none\(\)", body))
    # ---- TokenKind
    tk = strip_comments(strip_tests(rd(repo, "harper-core/src/token_kind.rs")))
    enum_body = body_after(tk, r"pub\s+enum\s+TokenKind\s*")
    enum_body = re.sub(r"#\[[^\]]*\]", "", enum_body)
    enum_body = re.sub(r"///[^\n]*", "", enum_body)
    variants = [v for v in re.findall(r"^\s*([A-Z]\w*)\s*(?:\([^)]*\))?\s*,", enum_body, re.M)]
    if variants != KNOWN_KINDS:
        raise Shape("enum TokenKind changed: %r" % (variants,))
    wl = body_after(tk, r"pub\s+fn\s+is_word_like\s*\(&self\)\s*->\s*bool\s*")
    m = re.search(r"matches!\(\s*self\s*,(.*)\)\s*$", wl.strip(), re.S)
    if not m:
        raise Shape("is_word_like: shape not recognised")
    alts = [a.strip() for a in m.group(1).split("|")]
    wl_names = []
    for a in alts:
        mm = re.fullmatch(r"TokenKind::(\w+)(?:\(\.\.\))?", a)
        if not mm or mm.group(1) not in KNOWN_KINDS:
            raise Shape("is_word_like: unexpected alternative %r" % a)
        wl_names.append(mm.group(1))
    wl_codes = [KNOWN_KINDS.index(n) for n in wl_names]
    # ---- char_to_normalized
    cs = strip_tests(rd(repo, "harper-core/src/char_string.rs"))
    nb = body_after(cs, r"fn\s+char_to_normalized\s*\(c:\s*char\)\s*->\s*char\s*")
    arms = re.findall(r"'([^'\\])'\s*=>\s*'(\\'|[^'\\])'", nb)
    if not arms or not re.search(r"_\s*=>\s*c\s*,?", nb):
        raise Shape("char_to_normalized: shape not recognised")
    n_arms = len(re.findall(r"=>", nb))
    if n_arms != len(arms) + 1:
        raise Shape("char_to_normalized: unexpected arm")
    norm = []
    for a, b in arms:
        tgt = 39 if b == "\\'" else ord(b)
        norm.append((ord(a), tgt))

    def text(w):
        return "[" + "; ".join("%d" % ord(c) for c in w) + "]"

    out = ["(* GENERATED by tools/tables/titlecase.py from /repo — do not edit. *)",
           "From Coq Require Import List NArith Bool.", "Import ListNotations.", "",
           "(* SPECIAL_CONJUNCTIONS of should_capitalize_token (title_case.rs), as code points: %s *)" % " ".join(words),
           "Definition tc_special_conjunctions : list (list N) := [",
           ";\n".join("  %s%%N" % text(w) for w in words), "].", "",
           "(* is_short_preposition = metadata.preposition && tok.span.len() <= tc_short_preposition_max *)",
           "Definition tc_short_preposition_max : nat := %d." % bound, "",
           "(* case operations applied to characters of the output in make_title_case *)",
           "Definition tc_ascii_upper_sites : nat := %d." % n_up,
           "Definition tc_ascii_lower_sites : nat := %d." % n_lo,
           "Definition tc_uses_unicode_case_on_output : bool := %s." % ("true" if uni else "false"),
           "Definition tc_output_index_writes : nat := %d." % len(writes),
           "(* the proper-noun block copies correct_caps[idx] over the output character c only when",
           "   is_case_variant(c, canonical) || (canonical == tc_canonical_apostrophe_to && c in tc_canonical_apostrophe_from);",
           "   is_case_variant(a, b) = a.to_lowercase().eq(b.to_lowercase()) && a.to_uppercase().eq(b.to_uppercase()) *)",
           "Definition tc_canonical_copy_guarded : bool := %s." % ("true" if guarded else "false"),
           "Definition tc_canonical_copy_unguarded_present : bool := %s." % ("true" if wr_canon_old else "false"),
           "Definition tc_case_variant_is_lower_and_upper : bool := %s." % ("true" if cv_ok else "false"),
           "Definition tc_canonical_apostrophe_to : N := %d%%N." % apo_to,
           "Definition tc_canonical_apostrophe_from : list N := [%s]%%N." % "; ".join("%d" % x for x in apo_from),
           "Definition tc_first_last_forced : bool := %s." % ("true" if first_last else "false"), "",
           "(* enum TokenKind in declaration order: %s *)" % " ".join("%d=%s" % (i, n) for i, n in enumerate(KNOWN_KINDS)),
           "Definition tc_token_kind_count : nat := %d." % len(KNOWN_KINDS),
           "(* TokenKind::is_word_like matches: %s *)" % " ".join(wl_names),
           "Definition tc_word_like_codes : list nat := [%s]." % "; ".join(str(c) for c in wl_codes), "",
           "(* char_to_normalized (char_string.rs): (from, to) *)",
           "Definition tc_normalize_table : list (N * N) := [%s]%%N." % "; ".join("(%d, %d)" % p for p in norm), ""]
    return "\n".join(out)
