"""c12rules — how every STRUCT rule of LintGroup::new_curated walks the document (property C12).

A struct rule is a linter registered with `out.add(..)` / `insert_struct_rule!` (it is handed the whole
Document; pattern rules registered with `add_pattern_linter` / `insert_pattern_rule!` run per chunk through
the chunk cache and are covered by C12_pattern_rules_local for ANY chunk function).  For every struct rule
this module finds the implementation of `Linter::lint` and classifies its SHAPE from the way the body
touches its `document` parameter:

  IterChunks | IterSentences | IterParagraphs
        `document.iter_X()` is the only structural access; everything else the body learns about the
        document it learns from the slice it is handed and from `get_span_content(..)` / `get_source()`
        (character access)                              -> ParaSplit.schema_rule, proved paragraph-local
  KindFilter
        `document.iter_<kind>s()` (a filter of the token list by kind, never ParagraphBreak), one token at
        a time                                          -> ParaSplit.window_rule 1, proved paragraph-local
  ViaPatternLinter
        the type implements PatternLinter; its Linter::lint is the blanket impl of pattern_linter.rs, which
        is classified by the same rules (blanket_pattern_shape)
  TokenLoop | TupleWindows n | Neighbourhood back fwd | Merge | ThenRemoveOverlaps shape
        per-token loop over ALL tokens / itertools tuple_windows / `get_token(i +- c)` around an index /
        merge_linters! (union + remove_overlaps) / remove_overlaps over the lints of the whole document:
        NOT covered by a proved schema without a premise about the rule body; these rules stay
        assumed + monitored, by name.
A `document` handed to a helper fn of the same file is followed into that fn (it may only read characters).

Phase 5: for TupleWindows n / Neighbourhood 0 fwd bodies the module also reads the KIND GUARD of the window
(`window_guards`): every position of the window is tested by `!x.kind.is_word()` / `!x.kind.is_whitespace()` inside an
`if .. { continue; }` (or a `let Some(x) = .. else { continue; }` + such a test) BEFORE the first `lints.push`, the
centre of a Neighbourhood is a Word because it comes from `iter_<word class>_indices()`
-> Model/C12Windows.guarded_rule, proved paragraph-local (no guard position accepts a ParagraphBreak).
A rule without a complete guard gets no entry (it stays in the residue).  UnclosedQuotes (TokenLoop) is modelled
EXACTLY (Model/C12Windows.unclosed_quotes): the module raises unless its body is the known one-statement loop.

The module raises when the registry or a body has a shape it does not know (a new way of walking the
document must be modelled)."""
import os, re

LINT_DIR = "harper-core/src/linting"
CONTENT = {"get_span_content", "get_span_content_str", "get_source"}
ITERS = {"iter_chunks": "IterChunks", "iter_sentences": "IterSentences", "iter_paragraphs": "IterParagraphs"}


def strip_comments(src):
    src = re.sub(r"//[^\n]*", "", src)
    return re.sub(r"/\*.*?\*/", "", src, flags=re.S)


def strip_tests(src):
    i = src.find("#[cfg(test)]")
    return src if i < 0 else src[:i]


def match_brace(code, i):
    depth = 0
    for j in range(i, len(code)):
        if code[j] == "{":
            depth += 1
        elif code[j] == "}":
            depth -= 1
            if depth == 0:
                return j
    raise RuntimeError("unbalanced braces")


def rule_files(repo):
    out = {}
    base = os.path.join(repo, LINT_DIR)
    for root, _, files in os.walk(base):
        for f in sorted(files):
            if f.endswith(".rs"):
                p = os.path.join(root, f)
                out[os.path.relpath(p, base)] = strip_comments(strip_tests(open(p, encoding="utf-8").read()))
    return out


def registry(files, repo):
    """[(rule name, type name)] of the struct rules and the number of pattern rules of new_curated"""
    code = files["lint_group.rs"]
    m = re.search(r"pub fn new_curated\(dictionary:", code)
    if not m:
        raise RuntimeError("lint_group.rs: new_curated not found")
    body = code[m.end():match_brace(code, code.index("{", m.end())) + 1]
    # the two macros must still be the thin wrappers we know
    if not re.search(r"macro_rules! insert_struct_rule \{\s*\(\$rule:ident, \$default_config:expr\) => \{\s*out\.add\(stringify!\(\$rule\), Box::new\(\$rule::default\(\)\)\);", body):
        raise RuntimeError("lint_group.rs: insert_struct_rule! has an unknown shape")
    if not re.search(r"macro_rules! insert_pattern_rule \{\s*\(\$rule:ident, \$default_config:expr\) => \{\s*out\.add_pattern_linter\(stringify!\(\$rule\), Box::new\(\$rule::default\(\)\)\);", body):
        raise RuntimeError("lint_group.rs: insert_pattern_rule! has an unknown shape")
    structs = [(n, n) for n in re.findall(r"insert_struct_rule!\((\w+),", body)]
    patterns = re.findall(r"insert_pattern_rule!\((\w+),", body)
    for name, ty in re.findall(r'out\.add\(\s*"(\w+)",\s*Box::new\((\w+)::new\(', body):
        structs.append((name, ty))
    merged = re.findall(r"out\.merge_from\(&mut (\w+)::lint_group\(", body)
    n_add = len(re.findall(r"\bout\.add\(", body)) - 1          # one inside the macro definition
    if n_add != len(structs) - len(re.findall(r"insert_struct_rule!\(", body)):
        raise RuntimeError("lint_group.rs: an out.add(..) of unknown shape")
    n_pat = len(patterns)
    pat_names = list(patterns)
    for mod in merged:
        mcode = files.get(mod + ".rs")
        if mcode is None:
            raise RuntimeError("merged group %s: file not found" % mod)
        adds = re.findall(r"\$?group\.add\(", mcode)
        padds = re.findall(r"\$?group\.add_pattern_linter\(", mcode)
        if adds and padds or not (adds or padds):
            raise RuntimeError("merged group %s: unknown registration shape" % mod)
        if adds:
            mm = re.search(r"\$group\.add\(\s*\$name,\s*Box::new\((\w+)::(\w+)\(", mcode)
            if not mm or len(adds) != 1:
                raise RuntimeError("merged group %s: group.add of unknown shape" % mod)
            ty = mm.group(1)
            names = re.findall(r'"(\w+)"\s*=>\s*\(', mcode)
            if not names:
                raise RuntimeError("merged group %s: no entries" % mod)
            structs += [(n, ty) for n in names]
        else:
            # pattern-rule groups: count the entries (`"Name" => ...` rows, or the keys of the JSON table
            # the module builds its linters from)
            rows = re.findall(r'"(\w+)"\s*=>', mcode)
            js = re.findall(r'include_str!\(\s*"([^"]+\.json)"\s*\)', mcode)
            if rows and not js:
                n_pat += len(rows)
                pat_names += rows
            elif js and not rows and len(padds) == 1:
                import json
                for j in js:
                    keys = list(json.load(open(os.path.join(repo, LINT_DIR, os.path.dirname(mod + ".rs"), j), encoding="utf-8")))
                    n_pat += len(keys)
                    pat_names += keys
            else:
                raise RuntimeError("merged group %s: unknown shape of a pattern-rule group" % mod)
    return structs, n_pat, len(set(pat_names) | set(n for n, _ in structs))


def find_impl(files, ty):
    """('linter', file, body) | ('pattern', file) | ('merge', file, [subs])"""
    for f, code in files.items():
        m = re.search(r"impl(?:<[^>]*>)?\s+Linter\s+for\s+%s\b(?:<[^>]*>)?\s*\{" % ty, code)
        if m:
            end = match_brace(code, m.end() - 1)
            return ("linter", f, code[m.end() - 1:end + 1])
    for f, code in files.items():
        if re.search(r"impl(?:<[^>]*>)?\s+PatternLinter\s+for\s+%s\b" % ty, code):
            return ("pattern", f)
    for f, code in files.items():
        m = re.search(r"merge_linters!\s*[\({]\s*%s\s*=>\s*([\w\s,]+?)\s*=>" % ty, code)
        if m:
            return ("merge", f, [s.strip() for s in m.group(1).split(",") if s.strip()])
    raise RuntimeError("struct rule type %s: no Linter / PatternLinter impl and no merge_linters! found" % ty)


def lint_body(impl_body, where):
    m = re.search(r"fn lint\(&mut self,\s*(\w+):\s*&(?:crate::)?Document\)\s*->\s*[\w:<>]+\s*\{", impl_body)
    if not m:
        raise RuntimeError("%s: fn lint of unknown signature" % where)
    end = match_brace(impl_body, m.end() - 1)
    return m.group(1), impl_body[m.end() - 1:end + 1]


def helper_methods(code, callee, where):
    """the methods a helper fn of the same file calls on its &Document parameter"""
    m = re.search(r"\bfn %s\s*\(([^)]*)\)[^{]*\{" % callee, code)
    if not m:
        raise RuntimeError("%s: the document is handed to %s, which is not a fn of this file" % (where, callee))
    pm = re.search(r"(\w+):\s*&(?:crate::)?Document\b", m.group(1))
    if not pm:
        raise RuntimeError("%s: helper %s has no &Document parameter" % (where, callee))
    body = code[m.end() - 1:match_brace(code, m.end() - 1) + 1]
    uses = re.findall(r"\b%s\b\s*(\.\s*\w+)?" % pm.group(1), body)
    if any(u == "" for u in uses):
        raise RuntimeError("%s: helper %s passes the document on" % (where, callee))
    return [u.replace(".", "").strip() for u in uses]


def classify(doc, body, where, code=""):
    """(shape string for Coq, reads the whole source?)"""
    methods = []
    for mm in re.finditer(r"\b%s\b\s*(\.\s*\w+)?" % doc, body):
        if mm.group(1):
            methods.append(mm.group(1).replace(".", "").strip())
            continue
        # a bare use: must be an argument of a call to a helper fn of the same file, whose own accesses count
        pre = body[:mm.start()]
        depth, j = 0, len(pre) - 1
        while j >= 0 and not (pre[j] == "(" and depth == 0):
            depth += (pre[j] == ")") - (pre[j] == "(")
            j -= 1
        cm = re.search(r"(\w+)\s*$", pre[:j]) if j >= 0 else None
        if not cm:
            raise RuntimeError("%s: `%s` is passed on as a whole" % (where, doc))
        hm = helper_methods(code, cm.group(1), where)
        if not set(hm) <= CONTENT:
            raise RuntimeError("%s: helper %s walks the document: %s" % (where, cm.group(1), sorted(set(hm))))
        methods += hm
    structural = [m for m in methods if m not in CONTENT]
    whole = "get_source" in methods
    kinds = set(structural)
    if len(kinds) == 1 and structural[0] in ITERS and len(structural) == 1:
        return ITERS[structural[0]], whole
    if kinds == {"tokens"} and len(structural) == 1:
        m = re.search(r"\b%s\s*\.\s*tokens\(\)\s*\.\s*tuple_windows\(\)" % doc, body)
        if m:
            hdr = re.search(r"for\s*\(([^)]*)\)\s*in\s*%s\s*\.\s*tokens\(\)" % doc, body)
            if not hdr:
                raise RuntimeError("%s: tuple_windows of unknown arity" % where)
            return "(TupleWindows %d)" % len([x for x in hdr.group(1).split(",") if x.strip()]), whole
        return "TokenLoop", whole
    idx = [m for m in kinds if re.fullmatch(r"iter_\w+_indices", m)]
    if len(idx) == 1 and kinds <= {idx[0], "get_token"} and structural.count(idx[0]) == 1:
        offs = []
        for a in re.findall(r"\b%s\s*\.\s*get_token\(([^()]*)\)" % doc, body):
            mm = re.fullmatch(r"\s*(\w+)\s*(?:([+-])\s*(\d+))?\s*", a)
            if not mm:
                raise RuntimeError("%s: get_token(%s) of unknown shape" % (where, a))
            offs.append(0 if mm.group(2) is None else int(mm.group(2) + mm.group(3)))
        return "(Neighbourhood %d %d)" % (max(0, -min(offs)), max(0, max(offs))), whole
    if len(kinds) == 1 and len(structural) == 1 and re.fullmatch(r"iter_\w+", structural[0]) \
            and not structural[0].endswith("_indices") and "paragraph_break" not in structural[0]:
        return "KindFilter", whole
    raise RuntimeError("%s: unknown way of walking the document: %s" % (where, sorted(kinds)))


def post_processing(body, where="?"):
    """does the body run remove_overlaps over ALL the lints it collected (a document-wide step)?
    The only shape known (Model/C12Merge.then_remove_overlaps): ONE call, on the collected vector, as the last
    statement before the vector is returned."""
    n = len(re.findall(r"\bremove_overlaps\(", body))
    if n == 0:
        return False
    if n != 1 or not re.search(r"remove_overlaps\(&mut (\w+)\);\s*\1\s*\}\s*$", body.strip()):
        raise RuntimeError("%s: remove_overlaps is not the single last step over the collected lints" % where)
    return True


def check_merge_macro(files):
    """merge_linters! must still be: collect every sub-linter's lints in order, remove_overlaps, return
    (Model/C12Merge.merge_rule)"""
    code = files.get("merge_linters.rs")
    if code is None:
        raise RuntimeError("merge_linters.rs not found")
    m = re.search(r"fn lint\(&mut self, document: &Document\) -> Vec<Lint>\s*\{(.*?)\}\s*fn description", code, re.S)
    if not m:
        raise RuntimeError("merge_linters.rs: fn lint of the macro not found")
    body = re.sub(r"\s+", " ", m.group(1)).strip()
    want = ("let mut lints = Vec::new(); $( lints.extend(self.[< $linter:snake >].lint(document)); )* "
            "remove_overlaps(&mut lints); lints")
    if body != want:
        raise RuntimeError("merge_linters.rs: the macro's lint body has an unknown shape: %s" % body)


WORD_CLASS_INDEX_ITERS = {"iter_adjective_indices", "iter_preposition_indices", "iter_noun_indices", "iter_verb_indices",
                          "iter_word_indices"}


def _continue_conditions(body, upto):
    """the conditions of all `if COND { continue; }` statements of body[:upto], split at `||`"""
    out = []
    for m in re.finditer(r"\bif\s+([^{}]*?)\s*\{\s*continue;?\s*\}", body[:upto]):
        out += [c.strip() for c in m.group(1).split("||")]
    return out


def window_guard(doc, body, shape, where):
    """the kind guard of a TupleWindows / Neighbourhood body as a list of 'PWord' / 'PWhitespace', or None when
    some position of the window is not guarded before the first push"""
    push = body.find("lints.push")
    if push < 0:
        push = len(body)
    conds = _continue_conditions(body, push)

    def guard_of(var):
        w = ("!%s.kind.is_word()" % var) in conds
        s = ("!%s.kind.is_whitespace()" % var) in conds
        if w and s:
            raise RuntimeError("%s: %s is required to be a word AND whitespace" % (where, var))
        return "PWord" if w else "PWhitespace" if s else None

    m = re.fullmatch(r"\(TupleWindows (\d+)\)", shape)
    if m:
        hdr = re.search(r"for\s*\(([^)]*)\)\s*in\s*%s\s*\.\s*tokens\(\)\s*\.\s*tuple_windows\(\)" % doc, body)
        vs = [x.strip() for x in hdr.group(1).split(",") if x.strip()]
        g = [guard_of(v) for v in vs]
        return None if None in g else g
    m = re.fullmatch(r"\(Neighbourhood (\d+) (\d+)\)", shape)
    if m:
        back, fwd = int(m.group(1)), int(m.group(2))
        if back != 0:
            return None
        hdr = re.search(r"for\s+(\w+)\s+in\s+%s\s*\.\s*(iter_\w+_indices)\(\)" % doc, body)
        if not hdr or hdr.group(2) not in WORD_CLASS_INDEX_ITERS:
            return None
        iv = hdr.group(1)
        g = ["PWord"] + [None] * fwd                       # the centre: a Word (metadata class of a Word token)
        for k in range(1, fwd + 1):
            # `let x = document.get_token(i + k);` (an Option, later `x.is_none() -> continue`, `let x = x.unwrap();`)
            # or `let Some(x) = document.get_token(i + k) else { continue; };`
            b1 = re.search(r"let\s+(\w+)\s*=\s*%s\s*\.\s*get_token\(\s*%s\s*\+\s*%d\s*\)\s*;" % (doc, iv, k), body[:push])
            b2 = re.search(r"let\s+Some\((\w+)\)\s*=\s*%s\s*\.\s*get_token\(\s*%s\s*\+\s*%d\s*\)\s*else\s*\{\s*continue;?\s*\}\s*;" % (doc, iv, k), body[:push])
            if b2:
                v = b2.group(1)
            elif b1:
                v = b1.group(1)
                if ("%s.is_none()" % v) not in conds or not re.search(r"let\s+%s\s*=\s*%s\.unwrap\(\);" % (v, v), body[:push]):
                    return None
            else:
                return None
            g[k] = guard_of(v)
        # no other index than i .. i + fwd
        return None if None in g else g
    return None


UNCLOSED_QUOTES_BODY = ("{ let mut lints = Vec::new(); for token in document.tokens() { if let "
                        "TokenKind::Punctuation(Punctuation::Quote(Quote { twin_loc: None })) = token.kind { lints.push(Lint { "
                        "span: token.span, lint_kind: LintKind::Formatting, suggestions: vec![], "
                        "message: \"This quote has no termination.\".to_string(), priority: 255, }) } } lints }")


def check_unclosed_quotes(body):
    """Model/C12Windows.unclosed_quotes is this body, statement by statement"""
    got = re.sub(r"\s+", " ", body).strip()
    if got != UNCLOSED_QUOTES_BODY:
        raise RuntimeError("unclosed_quotes.rs: the body of UnclosedQuotes::lint is not the one modelled "
                           "(Model/C12Windows.unclosed_quotes): %s" % got)


# ---------------------------------------------------------------------------------------------------------------
# phase 6: the match arms of CommaFixes::lint as a table (Model/C12Comma.cf_arms decodes it)
# ---------------------------------------------------------------------------------------------------------------
COMMA_PRE = ("{ let mut lints = Vec::new(); let source = document.get_source(); for ci in document.iter_comma_indices() { "
             "let mut toks = (None, None, document.get_token(ci).unwrap(), None, None); "
             "toks.0 = (ci >= 2).then(|| document.get_token(ci - 2).unwrap()); "
             "toks.1 = (ci >= 1).then(|| document.get_token(ci - 1).unwrap()); "
             "toks.3 = document.get_token(ci + 1); toks.4 = document.get_token(ci + 2); "
             "let kinds = ( toks.0.map(|t| &t.kind), toks.1.map(|t| &t.kind), "
             "*toks.2.span.get_content(source).first().unwrap(), toks.3.map(|t| &t.kind), toks.4.map(|t| &t.kind), ); "
             "let (span, suggestion, message) = match kinds ")
COMMA_POST = ("; lints.push(Lint { span, lint_kind: LintKind::Punctuation, suggestions: vec![suggestion], "
              "message: message.join(\" \"), priority: 32, }); } lints }")
COMMA_NEIGH = {"_": 0, "Some(Word(_))": 1, "Some(Space(_))": 2, "Some(Unlintable)": 3}
COMMA_CENTRE = {"','": 0, "'、' | '，'": 1}
COMMA_SPAN = {"toks.2.span": 1, "toks.1.unwrap().span": 2, "Span::new(toks.1.unwrap().span.start, toks.2.span.end)": 3}
COMMA_SUGG = {"Suggestion::Remove": 0, "Suggestion::ReplaceWith(vec![','])": 1,
              "Suggestion::ReplaceWith(vec![',', ' '])": 2, "Suggestion::InsertAfter(vec![' '])": 3}
COMMA_MSG = {"MSG_SPACE_BEFORE": 1, "MSG_AVOID_ASIAN": 2, "MSG_SPACE_AFTER": 4}
COMMA_IMPORT = "TokenKind::{Space, Unlintable, Word}"


def _match_close(code, i, op, cl):
    depth = 0
    j = i
    while j < len(code):
        ch = code[j]
        if ch == "'":                       # a char literal: skip it whole ('(' never occurs, but ',' and ' ' do)
            k = code.index("'", j + 1)
            j = k + 1
            continue
        if ch == op:
            depth += 1
        elif ch == cl:
            depth -= 1
            if depth == 0:
                return j
        j += 1
    raise RuntimeError("comma_fixes.rs: unbalanced %s%s" % (op, cl))


def _split_top(s):
    parts, depth, cur, j = [], 0, "", 0
    while j < len(s):
        ch = s[j]
        if ch == "'":
            k = s.index("'", j + 1)
            cur += s[j:k + 1]
            j = k + 1
            continue
        if ch in "([{":
            depth += 1
        elif ch in ")]}":
            depth -= 1
        if ch == "," and depth == 0:
            parts.append(cur.strip())
            cur = ""
        else:
            cur += ch
        j += 1
    if cur.strip():
        parts.append(cur.strip())
    return parts


def comma_arms(doc, body, code):
    """[(p0, p1, centre, p3, p4, (span code, id))] of `match kinds { .. }` in CommaFixes::lint, in source order; the
    final `_ => continue` is implicit.  Raises when anything around or inside the match is not what C12Comma.v models."""
    where = "comma_fixes.rs"
    if doc != "document":
        raise RuntimeError("%s: the Document parameter is called %s" % (where, doc))
    if COMMA_IMPORT not in re.sub(r"\s+", " ", code):
        raise RuntimeError("%s: Word / Space / Unlintable are not TokenKind's variants any more" % where)
    flat = re.sub(r"\s+", " ", body).strip()
    i = flat.find("match kinds {")
    if i < 0 or flat[:i + len("match kinds ")] != COMMA_PRE:
        raise RuntimeError("%s: the loop head of CommaFixes::lint is not the modelled one: %s" % (where, flat[:i]))
    lb = i + len("match kinds ")
    rb = _match_close(flat, lb, "{", "}")
    if flat[rb + 1:] != COMMA_POST:
        raise RuntimeError("%s: the loop tail of CommaFixes::lint is not the modelled one: %s" % (where, flat[rb + 1:]))
    inner = flat[lb + 1:rb].strip()
    arms, j = [], 0
    while j < len(inner):
        if inner[j] in " ,":
            j += 1
            continue
        if inner[j] == "_":
            if inner[j:].replace(" ", "") not in ("_=>continue,", "_=>continue"):
                raise RuntimeError("%s: unknown catch-all arm: %s" % (where, inner[j:]))
            break
        if inner[j] != "(":
            raise RuntimeError("%s: unknown arm at: %s" % (where, inner[j:j + 60]))
        e = _match_close(inner, j, "(", ")")
        pats = _split_top(inner[j + 1:e])
        if len(pats) != 5:
            raise RuntimeError("%s: an arm pattern with %d components" % (where, len(pats)))
        try:
            pp = (COMMA_NEIGH[pats[0]], COMMA_NEIGH[pats[1]], COMMA_CENTRE[pats[2]], COMMA_NEIGH[pats[3]], COMMA_NEIGH[pats[4]])
        except KeyError as ex:
            raise RuntimeError("%s: unknown arm pattern component %s" % (where, ex))
        m = re.match(r"\s*=>\s*", inner[e + 1:])
        if not m:
            raise RuntimeError("%s: arm without =>" % where)
        j = e + 1 + m.end()
        if inner.startswith("continue", j):
            arms.append(pp + ((0, 0),))
            j += len("continue")
            continue
        if inner[j] != "(":
            raise RuntimeError("%s: unknown arm result: %s" % (where, inner[j:j + 60]))
        e = _match_close(inner, j, "(", ")")
        res = _split_top(inner[j + 1:e])
        if len(res) != 3 or res[0] not in COMMA_SPAN or res[1] not in COMMA_SUGG:
            raise RuntimeError("%s: unknown arm result: %s" % (where, inner[j:e + 1]))
        mm = re.fullmatch(r"vec!\[(.*)\]", res[2])
        if not mm:
            raise RuntimeError("%s: unknown message: %s" % (where, res[2]))
        bits = 0
        for x in _split_top(mm.group(1)):
            if x not in COMMA_MSG:
                raise RuntimeError("%s: unknown message constant %s" % (where, x))
            bits += COMMA_MSG[x]
        arms.append(pp + ((COMMA_SPAN[res[0]], bits + 8 * COMMA_SUGG[res[1]]),))
        j = e + 1
    if not arms:
        raise RuntimeError("%s: no match arms found" % where)
    return arms


RUN_ON_CHUNK_EXPECTED = (
    "{letmutlints=Vec::new();letmuttok_cursor=0;loop{iftok_cursor>=chunk.len(){break;}"
    "letmatch_len=linter.pattern().matches(&chunk[tok_cursor..],source);ifmatch_len!=0{"
    "letlint=linter.match_to_lint(&chunk[tok_cursor..tok_cursor+match_len],source);lints.extend(lint);"
    "tok_cursor+=match_len;}else{tok_cursor+=1;}}lints}")


def check_run_on_chunk(files):
    """pattern_linter.rs: run_on_chunk must be the loop Model/C12Currency.pat_body_go models, and the blanket impl must
    hand every chunk to it (raises otherwise)"""
    pl = strip_tests(strip_comments(files["pattern_linter.rs"]))
    m = re.search(r"pub\s+fn\s+run_on_chunk\s*\([^)]*\)\s*->\s*Vec<Lint>\s*\{", pl)
    if not m:
        raise RuntimeError("pattern_linter.rs: fn run_on_chunk not found")
    body = re.sub(r"\s+", "", pl[m.end() - 1:match_brace(pl, m.end() - 1) + 1])
    if body != RUN_ON_CHUNK_EXPECTED:
        raise RuntimeError("pattern_linter.rs: run_on_chunk is not the loop the model has: %s" % body)
    if not re.search(r"for\s+chunk\s+in\s+document\.iter_chunks\(\)\s*\{\s*lints\.extend\(run_on_chunk\(self,\s*chunk,\s*source\)\);\s*\}", pl):
        raise RuntimeError("pattern_linter.rs: the blanket impl no longer extends with run_on_chunk(self, chunk, source) per chunk")


def match_span_sel(files, ty):
    """where the lint span of a PatternLinter's match_to_lint comes from: (0, i, 0) = matched_tokens[i].span,
    (1, a, b) = matched_tokens[a..b].span()? (b = 0: open end).  Raises on any other expression."""
    for f, code in files.items():
        code = strip_tests(strip_comments(code))
        m = re.search(r"impl(?:<[^>]*>)?\s+PatternLinter\s+for\s+%s\b[^{]*\{" % ty, code)
        if not m:
            continue
        impl = code[m.end() - 1:match_brace(code, m.end() - 1) + 1]
        m = re.search(r"fn\s+match_to_lint\s*\(\s*&self\s*,\s*(\w+)\s*:\s*&\[Token\]\s*,\s*\w+\s*:\s*&\[char\]\s*\)\s*->\s*Option<Lint>\s*\{", impl)
        if not m:
            raise RuntimeError("%s: match_to_lint of %s not found" % (f, ty))
        mt = m.group(1)
        body = impl[m.end() - 1:match_brace(impl, m.end() - 1) + 1]
        lits = re.findall(r"\bLint\s*\{", body)
        if len(lits) != 1:
            raise RuntimeError("%s: %s::match_to_lint builds %d Lint literals, expected one" % (f, ty, len(lits)))
        i = body.index(lits[0])
        lit = body[i:match_brace(body, body.index("{", i)) + 1]
        m = re.search(r"\bspan\s*(?::\s*([^,]+?))?\s*,", lit)
        if not m:
            raise RuntimeError("%s: %s::match_to_lint: no span field" % (f, ty))
        expr = (m.group(1) or "span").strip()

        def resolve(e, depth=0):
            e = re.sub(r"\s+", "", e)
            if depth > 3:
                raise RuntimeError("%s: %s: span expression too deep" % (f, ty))
            r = re.fullmatch(r"&?%s\[(\d+)\]\.span" % mt, e)
            if r:
                return (0, int(r.group(1)), 0)
            if re.fullmatch(r"%s\.first\(\)\?\.span" % mt, e):
                return (0, 0, 0)
            if re.fullmatch(r"%s\.span\(\)\?" % mt, e):
                return (1, 0, 0)
            r = re.fullmatch(r"%s\[(\d+)\.\.(\d*)\]\.span\(\)\?" % mt, e)
            if r:
                a, b = int(r.group(1)), int(r.group(2) or 0)
                if r.group(2) and b <= a:
                    raise RuntimeError("%s: %s: empty slice %s" % (f, ty, e))
                return (1, a, b)
            r = re.fullmatch(r"(\w+)\.span", e)
            if r:
                d = re.search(r"let\s+%s\s*=\s*&%s\[(\d+)\]\s*;" % (r.group(1), mt), body)
                if d:
                    return (0, int(d.group(1)), 0)
            if re.fullmatch(r"\w+", e):
                d = re.findall(r"let\s+%s\s*=\s*([^;]+);" % e, body)
                if len(d) == 1:
                    return resolve(d[0], depth + 1)
            raise RuntimeError("%s: %s::match_to_lint: unknown lint span expression `%s`" % (f, ty, e))
        return resolve(expr)
    raise RuntimeError("no PatternLinter impl for %s" % ty)


def generate(repo):
    files = rule_files(repo)
    check_merge_macro(files)
    check_run_on_chunk(files)
    structs, n_pat, n_keys = registry(files, repo)
    # the blanket impl every PatternLinter gets
    pl = files["pattern_linter.rs"]
    m = re.search(r"impl<L>\s+Linter\s+for\s+L\s+where\s+L:\s*PatternLinter,?\s*\{", pl)
    if not m:
        raise RuntimeError("pattern_linter.rs: blanket impl not found")
    bl = pl[m.end() - 1:match_brace(pl, m.end() - 1) + 1]
    d, b = lint_body(bl, "pattern_linter.rs blanket impl")
    blanket = classify(d, b, "pattern_linter.rs blanket impl")
    rows, seen, guards = [], {}, {}
    c_arms = None
    for name, ty in structs:
        if ty not in seen:
            impl = find_impl(files, ty)
            if impl[0] == "linter":
                d, b = lint_body(impl[2], impl[1])
                shape, whole = classify(d, b, impl[1], files[impl[1]])
                if post_processing(b, impl[1]):
                    shape = "(ThenRemoveOverlaps %s)" % shape
                g = window_guard(d, b, shape, impl[1])
                if g is not None:
                    guards[ty] = g
                if ty == "CommaFixes":
                    c_arms = comma_arms(d, b, files[impl[1]])
                if ty == "UnclosedQuotes":
                    if shape != "TokenLoop":
                        raise RuntimeError("unclosed_quotes.rs: shape %s, the model is a token loop" % shape)
                    check_unclosed_quotes(b)
                seen[ty] = (impl[1], shape, whole, [])
            elif impl[0] == "pattern":
                seen[ty] = (impl[1], "ViaPatternLinter", blanket[1], [])
            else:
                for s in impl[2]:
                    if find_impl(files, s)[0] != "pattern":
                        raise RuntimeError("%s: merge_linters! over a non-pattern linter %s" % (impl[1], s))
                seen[ty] = (impl[1], "Merge", blanket[1], impl[2])
        f, shape, whole, subs = seen[ty]
        rows.append((name, ty, f, shape, whole, subs))
    if "UnclosedQuotes" not in seen:
        raise RuntimeError("UnclosedQuotes is no longer a struct rule (Model/C12Windows.unclosed_quotes models it)")
    out = ["(* GENERATED by tools/tables/c12rules.py from /repo/harper-core/src/linting — do not edit. *)",
           "From Coq Require Import List String Bool.", "Import ListNotations.", "Open Scope string_scope.", "",
           "(* how the body of Linter::lint walks its `document` (see tools/tables/c12rules.py) *)",
           "Inductive rule_shape :=",
           "| IterChunks | IterSentences | IterParagraphs | KindFilter | ViaPatternLinter",
           "| TokenLoop | TupleWindows (n : nat) | Neighbourhood (back fwd : nat) | Merge",
           "| ThenRemoveOverlaps (inner : rule_shape).", "",
           "(* what a guarded window position requires of its token: TokenKind::is_word() / TokenKind::is_whitespace() *)",
           "Inductive kpat := PWord | PWhitespace.", "",
           "(* the blanket `impl<L: PatternLinter> Linter for L` of pattern_linter.rs: (shape, passes get_source() on) *)",
           "Definition blanket_pattern_shape : rule_shape * bool := (%s, %s)." % (blanket[0], "true" if blanket[1] else "false"), "",
           "(* every struct rule of LintGroup::new_curated: (rule name, implementing type, file, shape,",
           "   the body hands the whole source to a callee (get_source) rather than reading under token spans only,",
           "   sub-rules of a merge_linters! union) *)",
           "Definition struct_rules : list (string * string * string * rule_shape * bool * list string) := ["]
    out.append(";\n".join('  ("%s", "%s", "%s", %s, %s, [%s])' % (n, t, f, s, "true" if w else "false",
                                                                  "; ".join('"%s"' % x for x in subs))
                          for n, t, f, s, w, subs in rows))
    out.append("].")
    out += ["", "(* TupleWindows / Neighbourhood bodies whose every window position is kind-guarded before the first push:",
            "   (rule name, guard per position) *)",
            "Definition window_guard_names : list string := [" +
            "; ".join('"%s"' % n for n, t, _, _, _, _ in rows if t in guards) + "].",
            "Definition window_guard_pats : list (list kpat) := [" +
            "; ".join("[%s]" % "; ".join(guards[t]) for n, t, _, _, _, _ in rows if t in guards) + "].",
            "Definition window_guards : list (string * list kpat) := combine window_guard_names window_guard_pats."]
    if c_arms is None:
        raise RuntimeError("CommaFixes is no longer a struct rule with its own Linter impl (Model/C12Comma.v models it)")
    out += ["", "(* the arms of `match kinds { .. }` in CommaFixes::lint, in source order (the closing `_ => continue` left out):",
            "   (toks.0, toks.1, centre, toks.3, toks.4, (result, id)); neighbour pattern 0 `_` 1 Some(Word(_)) 2 Some(Space(_))",
            "   3 Some(Unlintable); centre 0 ',' 1 the two East Asian commas; result 0 continue, 1 the comma's span, 2 the span of toks.1,",
            "   3 Span::new(toks.1.start, toks.2.end); id = 1 space-before + 2 Asian + 4 space-after + 8 * suggestion",
            "   (0 Remove, 1 ReplaceWith [','], 2 ReplaceWith [',', ' '], 3 InsertAfter [' ']) *)",
            "Definition comma_arms_raw : list (nat * nat * nat * nat * nat * (nat * nat)) := [",
            ";\n".join("  (%d, %d, %d, %d, %d, (%d, %d))" % (a[0], a[1], a[2], a[3], a[4], a[5][0], a[5][1]) for a in c_arms),
            "]."]
    merged = [(s_, match_span_sel(files, s_)) for _, _, _, sh, _, subs in rows if sh == "Merge" for s_ in subs]
    out += ["", "(* the sub-rules of the merge_linters! unions run through the blanket PatternLinter impl (run_on_chunk, pinned by this",
            "   module); where match_to_lint takes its lint span from: (0, i, 0) = matched_tokens[i].span,",
            "   (1, a, b) = matched_tokens[a..b].span()? with b = 0 for an open end (matched_tokens[a..] / matched_tokens.span()?) *)",
            "Definition match_span_raw : list (string * (nat * nat * nat)) := [",
            ";\n".join('  ("%s", (%d, %d, %d))' % (n, k[0], k[1], k[2]) for n, k in merged),
            "]."]
    out += ["", "(* pattern rules (add_pattern_linter): they run per chunk through the chunk cache *)",
            "Definition pattern_rule_count : nat := %d." % n_pat,
            "(* distinct rule names of the registry (LintGroup::iter_keys, duplicates removed) *)",
            "Definition registry_key_count : nat := %d." % n_keys]
    return "\n".join(out) + "\n"
