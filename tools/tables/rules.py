"""rules.py — the curated rule list of LintGroup::new_curated, read from the Rust sources.

Reads  harper-core/src/linting/lint_group.rs          (new_curated: macros, explicit out.add calls, merges)
       harper-core/src/linting/phrase_corrections.rs  (add_exact_mappings!  -> pattern rules, all on)
       harper-core/src/linting/closed_compounds.rs    (add_compound_mappings! -> struct rules (`add`), all on)
       harper-core/proper_noun_rules.json             (keys -> pattern rules, all on)
and *simulates* the statements of new_curated in order (LintGroup::add refuses a key that is already
present in either map; LintGroup::merge_from extends both maps and merges the config), so the table
is what the code builds, not what a reader expects.  Every statement of the function body must be
recognised, otherwise this module raises (the check then reports a broken tie).  The result is
cross-checked a second time at run time: the harness compares the table (through the extracted model)
with `LintGroup::new_curated(..).config` and `iter_keys()` of the real code (case `T` of c11)."""
import os, re, json


def strip_comments(src):
    out, i, n = [], 0, len(src)
    while i < n:
        c = src[i]
        if c == '"':
            j = i + 1
            while j < n and src[j] != '"':
                j += 2 if src[j] == '\\' else 1
            out.append(src[i:j + 1]); i = j + 1
        elif src.startswith("//", i):
            while i < n and src[i] != "\n":
                i += 1
        elif src.startswith("/*", i):
            j = src.index("*/", i); i = j + 2
        else:
            out.append(c); i += 1
    return "".join(out)


def balanced(src, start, open_c, close_c):
    """src[start] == open_c; returns index just past the matching close (strings respected)."""
    assert src[start] == open_c
    depth, i, n = 0, start, len(src)
    while i < n:
        c = src[i]
        if c == '"':
            j = i + 1
            while src[j] != '"':
                j += 2 if src[j] == '\\' else 1
            i = j + 1
            continue
        if c == "'" and i + 2 < n and (src[i + 2] == "'" or (src[i + 1] == "\\" and src[i + 3] == "'")):
            i += 3 if src[i + 2] == "'" else 4
            continue
        if c == open_c:
            depth += 1
        elif c == close_c:
            depth -= 1
            if depth == 0:
                return i + 1
        i += 1
    raise ValueError("unbalanced %s%s" % (open_c, close_c))


def split_top(body):
    """split at commas that are outside (), [], {} and string literals"""
    parts, depth, i, n, cur = [], 0, 0, len(body), []
    while i < n:
        c = body[i]
        if c == '"':
            j = i + 1
            while body[j] != '"':
                j += 2 if body[j] == '\\' else 1
            cur.append(body[i:j + 1]); i = j + 1
            continue
        if c in "([{":
            depth += 1
        elif c in ")]}":
            depth -= 1
        if c == "," and depth == 0:
            parts.append("".join(cur)); cur = []
        else:
            cur.append(c)
        i += 1
    if "".join(cur).strip():
        parts.append("".join(cur))
    return [p.strip() for p in parts if p.strip()]


def fn_body(src, header_regex):
    m = re.search(header_regex, src)
    if not m:
        raise ValueError("function not found: " + header_regex)
    b = src.index("{", m.end() - 1) if src[m.end() - 1] != "{" else m.end() - 1
    e = balanced(src, b, "{", "}")
    return src[b + 1:e - 1]


def drop_macro_rules(body):
    """remove `macro_rules! name { ... }` items, return (body without them, {name: definition text})"""
    defs = {}
    while True:
        m = re.search(r"macro_rules!\s*(\w+)\s*\{", body)
        if not m:
            return body, defs
        e = balanced(body, m.end() - 1, "{", "}")
        defs[m.group(1)] = body[m.end():e - 1]
        body = body[:m.start()] + body[e:]


def mapping_group(path, macro, adder, ctor_regex):
    """a sub-group file of the shape:  let mut group = LintGroup::{default,empty}();  macro_rules! <macro>{..$group.<adder>(..}
       <macro>!(group, { "Name" => (...), ... });  group.set_all_rules_to(Some(true));  group"""
    src = strip_comments(open(path, encoding="utf-8").read())
    body = fn_body(src, r"pub fn lint_group\(\)\s*->\s*LintGroup\s*\{")
    body, defs = drop_macro_rules(body)
    if list(defs) != [macro] or not re.search(r"\$group\s*\.\s*%s\s*\(" % adder, defs[macro]) or not re.search(ctor_regex, defs[macro]):
        raise ValueError("%s: macro %s no longer has the known shape" % (path, macro))
    if re.search(r"\$group\s*\.\s*(?!%s\b)\w+\s*\(" % adder, defs[macro]):
        raise ValueError("%s: macro %s does more than %s" % (path, macro, adder))
    names = []
    rest = body
    while True:
        m = re.search(r"%s!\s*\(" % macro, rest)
        if not m:
            break
        e = balanced(rest, m.end() - 1, "(", ")")
        inv = rest[m.end():e - 1].strip()
        rest = rest[:m.start()] + rest[e:]
        m2 = re.match(r"group\s*,\s*\{", inv)
        if not m2:
            raise ValueError("%s: unexpected invocation of %s" % (path, macro))
        e2 = balanced(inv, m2.end() - 1, "{", "}")
        if inv[e2:].strip():
            raise ValueError("%s: trailing tokens in invocation of %s" % (path, macro))
        for ent in split_top(inv[m2.end():e2 - 1]):
            m3 = re.match(r'"((?:[^"\\]|\\.)*)"\s*=>\s*\(', ent)
            if not m3 or balanced(ent, m3.end() - 1, "(", ")") != len(ent):
                raise ValueError("%s: entry not of the form \"Name\" => (..): %r" % (path, ent[:60]))
            if "\\" in m3.group(1):
                raise ValueError("%s: escaped rule name %r" % (path, m3.group(1)))
            names.append(m3.group(1))
    stm = [s.strip() for s in rest.split(";")]
    want = [r"let mut group = LintGroup::(default|empty)\(\)", r"", r"group\.set_all_rules_to\(Some\(true\)\)", r"group"]
    stm = [s for s in stm if s]
    want = [w for w in want if w]
    if len(stm) != len(want) or not all(re.fullmatch(w, s) for w, s in zip(want, stm)):
        raise ValueError("%s: lint_group() has statements this translator does not know: %r" % (path, stm))
    if not names:
        raise ValueError("%s: no rules found" % path)
    return names


class Group:
    """LintGroup, as far as names are concerned"""
    def __init__(self):
        self.linters, self.patterns, self.config = set(), set(), {}
    def contains(self, k):
        return k in self.linters or k in self.patterns
    def add(self, k):
        if self.contains(k):
            return False
        self.linters.add(k); return True
    def add_pattern(self, k):
        if self.contains(k):
            return False
        self.patterns.add(k); return True
    def set_all(self, v):
        for k in list(self.linters) + list(self.patterns):
            self.config[k] = v
    def merge_from(self, o):
        for k, v in o.config.items():
            if v is not None:
                self.config[k] = v
        self.linters |= o.linters
        self.patterns |= o.patterns


def sub_group(adds, pattern):
    g = Group()
    g.program = []          # the statements of lint_group(), in source order (transliterated, not simulated)
    for k in adds:
        ok = g.add_pattern(k) if pattern else g.add(k)
        g.program.append(("RAddPattern" if pattern else "RAdd", k))
        # a refused add is legal Rust; the table stays faithful because we simulate it
    g.set_all(True)
    g.program.append(("RSetAll", True))
    return g


def curated(repo):
    lint = os.path.join(repo, "harper-core/src/linting")
    phrase = mapping_group(os.path.join(lint, "phrase_corrections.rs"), "add_exact_mappings", "add_pattern_linter", r"MapPhraseLinter::new_exact_phrases")
    closed = mapping_group(os.path.join(lint, "closed_compounds.rs"), "add_compound_mappings", "add", r"MapPhraseLinter::new_closed_compound")
    # proper nouns: keys of the JSON object -> add_pattern_linter, set_all_rules_to(Some(true))
    pn_src = strip_comments(open(os.path.join(lint, "proper_noun_capitalization_linters.rs"), encoding="utf-8").read())
    pn_body = fn_body(pn_src, r"fn lint_group_from_json\([^)]*\)\s*->\s*LintGroup\s*\{")
    if not (re.search(r"let rules: HashMap<String, RuleEntry> = serde_json::from_str\(json\)", pn_body)
            and re.search(r"group\s*\.\s*add_pattern_linter\(\s*key\s*,", pn_body)
            and re.search(r"group\.set_all_rules_to\(Some\(true\)\);\s*group\s*$", pn_body.strip())
            and len(re.findall(r"group\s*\.\s*\w+\(", pn_body)) == 2):
        raise ValueError("proper_noun_capitalization_linters.rs: lint_group_from_json changed shape")
    if not re.search(r'lint_group_from_json\(include_str!\("../../proper_noun_rules.json"\)', pn_src):
        raise ValueError("proper_noun_capitalization_linters.rs: lint_group() no longer reads proper_noun_rules.json")
    pairs = json.load(open(os.path.join(repo, "harper-core/proper_noun_rules.json"), encoding="utf-8"), object_pairs_hook=list)
    proper = [k for k, _ in pairs]
    if len(set(proper)) != len(proper):
        raise ValueError("proper_noun_rules.json: duplicate keys")
    subs = {"phrase_corrections": sub_group(phrase, True), "proper_noun_capitalization_linters": sub_group(proper, True),
            "closed_compounds": sub_group(closed, False)}

    src = strip_comments(open(os.path.join(lint, "lint_group.rs"), encoding="utf-8").read())
    body = fn_body(src, r"pub fn new_curated\(\s*dictionary\s*:[^)]*\)\s*->\s*Self\s*\{")
    body, defs = drop_macro_rules(body)
    if sorted(defs) != ["insert_pattern_rule", "insert_struct_rule"]:
        raise ValueError("new_curated: unexpected macros %r" % sorted(defs))
    norm = lambda s: re.sub(r"\s+", "", s)
    if "out.add(stringify!($rule),Box::new($rule::default()));out.config.set_rule_enabled(stringify!($rule),$default_config);" not in norm(defs["insert_struct_rule"]):
        raise ValueError("insert_struct_rule! changed shape")
    if "out.add_pattern_linter(stringify!($rule),Box::new($rule::default()));out.config.set_rule_enabled(stringify!($rule),$default_config);" not in norm(defs["insert_pattern_rule"]):
        raise ValueError("insert_pattern_rule! changed shape")
    out = Group()
    program = []            # new_curated's statements in source order: ("TMerge", sub) | ("RAdd"|"RAddPattern", k) | ("RSetEnabled", k, b)
    stmts = []
    depth, cur = 0, []
    for c in body:                      # split at top-level ';' (string literals hold no ';' here; checked below)
        if c in "([{":
            depth += 1
        elif c in ")]}":
            depth -= 1
        if c == ";" and depth == 0:
            stmts.append("".join(cur).strip()); cur = []
        else:
            cur.append(c)
    tail = "".join(cur).strip()
    if tail != "out":
        raise ValueError("new_curated does not end in `out`: %r" % tail[-40:])
    for s in stmts:
        n = norm(s)
        m = re.fullmatch(r"letmutout=Self::empty\(\)", n)
        if m:
            continue
        m = re.fullmatch(r"out\.merge_from\(&mut(\w+)::lint_group\((?:dictionary\.clone\(\),?)?\)\)", n)
        if m:
            if m.group(1) not in subs:
                raise ValueError("new_curated merges an unknown sub-group: " + m.group(1))
            out.merge_from(subs[m.group(1)])
            program.append(("TMerge", m.group(1)))
            continue
        m = re.fullmatch(r"insert_(struct|pattern)_rule!\((\w+),(true|false)\)", n)
        if m:
            (out.add if m.group(1) == "struct" else out.add_pattern)(m.group(2))
            out.config[m.group(2)] = (m.group(3) == "true")
            # the macro's expansion (its shape is checked above): add / add_pattern_linter, then config.set_rule_enabled
            program.append(("RAdd" if m.group(1) == "struct" else "RAddPattern", m.group(2)))
            program.append(("RSetEnabled", m.group(2), m.group(3) == "true"))
            continue
        m = re.fullmatch(r'out\.(add|add_pattern_linter)\("(\w+)",Box::new\(.*\),?\)', n)
        if m:
            (out.add if m.group(1) == "add" else out.add_pattern)(m.group(2))
            program.append(("RAdd" if m.group(1) == "add" else "RAddPattern", m.group(2)))
            continue
        m = re.fullmatch(r'out\.config\.set_rule_enabled\("(\w+)",(true|false)\)', n)
        if m:
            out.config[m.group(1)] = (m.group(2) == "true")
            program.append(("RSetEnabled", m.group(1), m.group(2) == "true"))
            continue
        raise ValueError("new_curated: statement not understood by the translator: %r" % s[:120])
    # NOTE: LintGroup::merge_from extends both maps without the contains_key test of add(), so a name
    # can end up in `linters` AND in `pattern_linters` (today: "Intact", from closed_compounds and from
    # phrase_corrections).  One switch then drives two rules.  The model keeps both entries.
    if set(out.config) != out.linters | out.patterns:
        raise ValueError("config keys and rule names differ: %r" % sorted(set(out.config) ^ (out.linters | out.patterns)))
    if any(v is None for v in out.config.values()):
        raise ValueError("curated config holds an unset value")
    if len(out.config) < 100:
        raise ValueError("implausibly few rules: %d" % len(out.config))
    counts = {"phrase_corrections": len(phrase), "proper_nouns": len(proper), "closed_compounds": len(closed),
              "named": len([s for s in stmts if re.match(r"insert_(struct|pattern)_rule!|out\s*\.\s*add", s)])}
    out.program, out.subs = program, subs
    return out, counts


def coq_stmt(st):
    if st[0] in ("RAdd", "RAddPattern"):
        return "%s %s (* %s *)" % (st[0], coq_key(st[1]), st[1])
    if st[0] == "RSetEnabled":
        return "RSetEnabled %s %s (* %s *)" % (coq_key(st[1]), "true" if st[2] else "false", st[1])
    if st[0] == "RSetAll":
        return "RSetAll (Some %s)" % ("true" if st[1] else "false")
    raise ValueError("unknown statement %r" % (st,))


def coq_program(g):
    """the statement sequences themselves (executed by Model/C11Curated.v; Proofs/C11CuratedProofs.v proves that the
       execution yields exactly the two tables above, so the simulation in this file is a checked witness only)"""
    out = ["(* the statements of LintGroup::new_curated and of the three lint_group() functions it merges, in source order.\n"
           "   RAdd = group.add(name, ..), RAddPattern = group.add_pattern_linter(name, ..) (results discarded, as in the code),\n"
           "   RSetEnabled = group.config.set_rule_enabled(name, b), RSetAll = group.set_all_rules_to(v);\n"
           "   insert_struct_rule!/insert_pattern_rule! are expanded (add, then set_rule_enabled).\n"
           "   TMerge sub = out.merge_from(&mut <sub>::lint_group()), sub's statements starting from an empty group.\n"
           "   curated_sub_proper_noun_capitalization_linters adds its rules in HashMap iteration order in the code: the order\n"
           "   below is that of proper_noun_rules.json; C11_new_curated_program proves the result is the same for every order. *)\n"
           "Inductive rstmt : Type :=\n| RAdd (name : list N)\n| RAddPattern (name : list N)\n| RSetEnabled (name : list N) (b : bool)\n| RSetAll (v : option bool).\n"
           "Inductive tstmt : Type :=\n| TStmt (s : rstmt)\n| TMerge (sub : list rstmt)."]
    for name in ("phrase_corrections", "proper_noun_capitalization_linters", "closed_compounds"):
        rows = ["  " + coq_stmt(st) for st in g.subs[name].program]
        out.append("Definition curated_sub_%s : list rstmt := [\n%s\n]." % (name, ";\n".join(rows)))
    rows = []
    for st in g.program:
        if st[0] == "TMerge":
            rows.append("  TMerge curated_sub_%s" % st[1])
        else:
            body, _, comment = coq_stmt(st).partition(" (* ")
            rows.append("  TStmt (%s) (* %s" % (body, comment))
    out.append("Definition curated_program : list tstmt := [\n%s\n]." % ";\n".join(rows))
    return "\n\n".join(out)


def coq_key(k):
    bs = k.encode("utf-8")
    return "[" + "; ".join(str(b) for b in bs) + "]%N"


def generate(repo):
    g, counts = curated(repo)
    bkey = lambda k: k.encode("utf-8")           # BTreeMap<String,_> order = byte-wise order of the UTF-8 key
    S = sorted(g.linters, key=bkey)
    P = sorted(g.patterns, key=bkey)
    def table(name, keys):
        rows = ["  (%s, %s) (* %s *)" % (coq_key(k), "true" if g.config[k] else "false", k) for k in keys]
        return "Definition %s : list (list N * bool) := [\n%s\n]." % (name, ";\n".join(rows))
    hdr = ("(* GENERATED by tools/tables/rules.py from harper-core/src/linting/{lint_group,phrase_corrections,closed_compounds,\n"
           "   proper_noun_capitalization_linters}.rs and harper-core/proper_noun_rules.json — DO NOT EDIT.\n"
           "   The rules of LintGroup::new_curated: (UTF-8 bytes of the name, curated default), each list in BTreeMap order.\n"
           "   %d struct rules (map `linters`, run on the whole document), %d pattern rules (map `pattern_linters`, run per chunk,\n"
           "   cached).  Sources: %d phrase corrections, %d proper-noun groups, %d closed compounds, %d named in lint_group.rs.\n"
           "   Names registered in BOTH maps (one switch, two rules): %s.  Distinct switches: %d. *)\n"
           % (len(S), len(P), counts["phrase_corrections"], counts["proper_nouns"], counts["closed_compounds"], counts["named"],
              ", ".join(sorted(g.linters & g.patterns)) or "none", len(g.config)))
    return (hdr + "Require Import Base.\n\n" + table("curated_struct_rules", S) + "\n\n" + table("curated_pattern_rules", P)
            + "\n\n" + coq_program(g) + "\n")


if __name__ == "__main__":
    import sys
    sys.stdout.write(generate(sys.argv[1] if len(sys.argv) > 1 else "/repo"))
