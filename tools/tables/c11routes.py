"""c11routes — the source shapes Model/C11JsonValue.v transcribes (C11, phase 4):

  harper-ls/src/config.rs   Config::from_lsp_config: the statement skeleton (base = default; settings must be an
        object; its "harper-ls" member must be an object; a sequence of `if let Some(v) = value.get("KEY") {..}`
        blocks; Ok(base)), the keys read, in order, and the body of the `linters` block, which must be exactly
        `base.lint_config = serde_json::from_value(v.clone())?;`; no other block may mention lint_config;
        Default for Config must give `lint_config: LintGroupConfig::default()`.
  harper-wasm/src/lib.rs    the bodies of Linter::set_lint_config_from_json and ::set_lint_config_from_object as
        statement lists over {parse, clear, merge_from, Ok(())} — emitted AS WRITTEN (no judgement here): the theorem
        C11_wasm_routes_are_set (Proofs/C11JsonValueProofs.v) proves that each list computes wasm_set_config, so a
        change of either function (e.g. dropping clear()) breaks a proof, although set_lint_config_from_object cannot
        be executed natively; get_lint_config_as_json must be serde_json::to_string(&self.lint_group.config).unwrap().
Raises on any statement it does not know."""
import os, re


def strip_comments(code):
    return re.sub(r"//[^\n]*", "", code)


def block_at(code, i):
    """code[i] == '{' -> index just past the matching '}' (string literals respected)"""
    assert code[i] == "{"
    depth, j, n = 0, i, len(code)
    while j < n:
        c = code[j]
        if c == '"':
            j += 1
            while code[j] != '"':
                j += 2 if code[j] == "\\" else 1
        elif c == "{":
            depth += 1
        elif c == "}":
            depth -= 1
            if depth == 0:
                return j + 1
        j += 1
    raise RuntimeError("unbalanced braces")


def fn_body(code, header_rx, what):
    ms = list(re.finditer(header_rx, code))
    if len(ms) != 1:
        raise RuntimeError("expected exactly one %s, found %d" % (what, len(ms)))
    i = code.index("{", ms[0].end() - 1)
    return code[i + 1:block_at(code, i) - 1]


def norm(s):
    return re.sub(r"\s+", " ", s).strip()


def coq_key(s):
    return "[" + "; ".join(str(b) for b in s.encode("utf-8")) + "]%N"


def lsp_shape(repo):
    code = strip_comments(open(os.path.join(repo, "harper-ls/src/config.rs")).read())
    m = re.search(r"impl\s+Config\s*\{", code)
    if not m:
        raise RuntimeError("impl Config not found")
    impl = code[m.end() - 1:block_at(code, m.end() - 1)]
    body = fn_body(impl, r"pub\s+fn\s+from_lsp_config\s*\(\s*value\s*:\s*Value\s*\)\s*->\s*Result<Self>\s*\{", "Config::from_lsp_config")
    rest = body.strip()
    heads = [
        r"let\s+mut\s+base\s*=\s*Config::default\(\)\s*;",
        r"let\s+Value::Object\(value\)\s*=\s*value\s+else\s*\{\s*bail!\([^;]*\);\s*\}\s*;",
        r"let\s+Some\(Value::Object\(value\)\)\s*=\s*value\.get\(\"harper-ls\"\)\s+else\s*\{\s*bail!\([^;]*\);\s*\}\s*;",
    ]
    for h in heads:
        mm = re.match(h, rest)
        if not mm:
            raise RuntimeError("from_lsp_config: unexpected prologue at: %r" % rest[:90])
        rest = rest[mm.end():].strip()
    keys, blocks = [], {}
    while True:
        mm = re.match(r"if\s+let\s+Some\(v\)\s*=\s*value\.get\(\"([^\"\\]*)\"\)\s*\{", rest)
        if not mm:
            break
        end = block_at(rest, mm.end() - 1)
        k = mm.group(1)
        if k in blocks:
            raise RuntimeError("from_lsp_config reads key %r twice" % k)
        keys.append(k)
        blocks[k] = norm(rest[mm.end():end - 1])
        rest = rest[end:].strip()
    if norm(rest) != "Ok(base)":
        raise RuntimeError("from_lsp_config: unexpected statement: %r" % rest[:120])
    if "linters" not in blocks:
        raise RuntimeError("from_lsp_config no longer reads \"linters\"")
    if blocks["linters"] != "base.lint_config = serde_json::from_value(v.clone())?;":
        raise RuntimeError("from_lsp_config: the linters block changed: %r" % blocks["linters"])
    for k, b in blocks.items():
        if k != "linters" and ("lint_config" in b or "linters" in b):
            raise RuntimeError("from_lsp_config: block %r touches the lint configuration" % k)
    dflt = fn_body(code, r"impl\s+Default\s+for\s+Config\s*\{\s*fn\s+default\(\)\s*->\s*Self\s*\{", "Default for Config")
    if not re.search(r"lint_config\s*:\s*LintGroupConfig::default\(\)\s*,", dflt):
        raise RuntimeError("Config::default(): lint_config is no longer LintGroupConfig::default()")
    return keys


WSTMTS = [
    (r"let mut new_config = serde_json::from_str\(&json\)\.map_err\(\|v\| v\.to_string\(\)\)\?", "WParse WFromJsonStr"),
    (r"let mut new_config = serde_wasm_bindgen::from_value\(object\)\.map_err\(\|v\| v\.to_string\(\)\)\?", "WParse WFromJsObject"),
    (r"self\.lint_group\.config\.clear\(\)", "WClear"),
    (r"self\.lint_group\.config\.merge_from\(&mut new_config\)", "WMerge"),
]


def wasm_body(code, name, arg):
    body = fn_body(code, r"pub\s+fn\s+%s\s*\(\s*&mut\s+self\s*,\s*%s\s*\)\s*->\s*Result<\(\),\s*String>\s*\{" % (name, arg), "Linter::" + name)
    parts = [norm(p) for p in body.split(";")]
    if not parts or parts[-1] != "Ok(())":
        raise RuntimeError("%s does not end in Ok(()): %r" % (name, parts[-1:]))
    out = []
    for p in parts[:-1]:
        for rx, coq in WSTMTS:
            if re.fullmatch(rx, p):
                out.append(coq)
                break
        else:
            raise RuntimeError("%s: unknown statement %r" % (name, p))
    out.append("WOk")
    return out


def generate(repo):
    keys = lsp_shape(repo)
    wcode = strip_comments(open(os.path.join(repo, "harper-wasm/src/lib.rs")).read())
    from_json = wasm_body(wcode, "set_lint_config_from_json", r"json\s*:\s*String")
    from_obj = wasm_body(wcode, "set_lint_config_from_object", r"object\s*:\s*JsValue")
    getter = norm(fn_body(wcode, r"pub\s+fn\s+get_lint_config_as_json\s*\(\s*&self\s*\)\s*->\s*String\s*\{", "Linter::get_lint_config_as_json"))
    if getter != "serde_json::to_string(&self.lint_group.config).unwrap()":
        raise RuntimeError("get_lint_config_as_json changed: %r" % getter)
    L = []
    L.append("(* GENERATED by tools/tables/c11routes.py from harper-ls/src/config.rs and harper-wasm/src/lib.rs — do not edit *)")
    L.append("Require Import Base LintGroupCfg C11JsonValue.")
    L.append("From Coq Require Import List NArith.")
    L.append("Import ListNotations.")
    L.append("")
    L.append("(* the keys Config::from_lsp_config reads from the \"harper-ls\" object, in order: %s *)" % ", ".join(keys))
    L.append("Definition lsp_config_keys : list key :=")
    L.append("  [ " + ";\n    ".join(coq_key(k) for k in keys) + " ].")
    L.append("Definition lsp_other_keys : list key :=")
    L.append("  [ " + ";\n    ".join(coq_key(k) for k in keys if k != "linters") + " ].")
    L.append("")
    L.append("(* harper_wasm::Linter::set_lint_config_from_json, statement by statement *)")
    L.append("Definition wasm_set_from_json_body : list wstmt := [ " + "; ".join(from_json) + " ].")
    L.append("(* harper_wasm::Linter::set_lint_config_from_object, statement by statement *)")
    L.append("Definition wasm_set_from_object_body : list wstmt := [ " + "; ".join(from_obj) + " ].")
    L.append("")
    return "\n".join(L)
