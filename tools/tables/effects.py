"""effects — the generated effect model of C10 ("the text being checked never leaves the machine").

Emits coq/Model/Tables_effects.v with
  (i)   lock_graph: the resolved dependency graph of /repo/Cargo.lock, package = (name, version), edges resolved by
        name+version exactly as Cargo.lock writes them.  For WORKSPACE members the edges are restricted to what their
        Cargo.toml lists under [dependencies] / [build-dependencies] / [target.*.dependencies]; [dev-dependencies]
        are not shipped and are emitted separately (dev_only_edges).  Third-party packages keep every edge of the
        lock file (all platforms, all activated features: an over-approximation).
  (i')  linked_graph: the graph `cargo metadata --offline --locked --filter-platform x86_64-unknown-linux-gnu
        --filter-platform wasm32-unknown-unknown` resolves (features resolved, other platforms' target-specific
        dependencies and dev edges dropped): the crates that can actually be linked into what is shipped.
  (ii)  crate_class: the class of every third-party package from the hand-audited tools/crate_effects.toml, after
        re-running the vocabulary scan of tools/audit_crates.py on the vendored sources (raises on a pinned count
        that no longer matches, on an entry without the reviewed_* pins its class needs, on an unvendored crate).
        A package that is missing in the audited table gets NO row: the theorem C10_no_client_crate then fails
        (that is proved as C10_unknown_crate_breaks).
  (iii) effect_sites: every mention, in workspace sources (harper-*/src/**, harper-*/build.rs; tests/, benches/,
        examples/ and #[cfg(test)] modules excluded; comments removed), of an OS-effect API, with file, enclosing
        fn, the argument expression, the binding of a bare-identifier argument / receiver, and the enclosing
        string-literal match arm.  Plus the callers of the functions that contain a write site and the tail
        expression of the path helper they use, plus (KLocal) how every local variable that these path expressions
        mention is computed inside its fn — all `let` bindings incl. shadowing and tuple/Some patterns, in-place
        method-call statements (`tmp_name.push(".tmp")`) and assignments, transitively.
  (iv)  default_address: the literal of `static DEFAULT_ADDRESS` in harper-ls/src/main.rs.
Raises (class Shape) when something no longer has the shape it knows."""
import os, re, sys, glob

try:
    import tomllib
except ImportError:  # pragma: no cover
    tomllib = None

HERE = os.path.dirname(os.path.abspath(__file__))
sys.path.insert(0, os.path.dirname(HERE))
import audit_crates  # noqa: E402

SHIPPED = ["harper-ls", "harper-cli", "harper-wasm"]
CLASSES = {"pure": "CPure", "fs": "CFs", "process": "CProcess", "net-capable-runtime": "CNetRuntime", "net-client": "CNetClient"}
RANK = {"pure": 0, "fs": 1, "process": 2, "net-capable-runtime": 3, "net-client": 4}
CAT_RANK = {"fs": 1, "process": 2, "net": 3, "netact": 3}


class Shape(Exception):
    pass


# ------------------------------------------------------------------------------------------------ (i) graph
def parse_lock(repo):
    if tomllib is None:
        raise Shape("python without tomllib")
    lock = tomllib.load(open(os.path.join(repo, "Cargo.lock"), "rb"))
    if lock.get("version") not in (3, 4):
        raise Shape("Cargo.lock format version %r is not one I know (3, 4)" % lock.get("version"))
    pk = lock.get("package")
    if not isinstance(pk, list) or not pk:
        raise Shape("Cargo.lock has no [[package]] list")
    by_name = {}
    for p in pk:
        by_name.setdefault(p["name"], []).append(p)
    keys = set((p["name"], p["version"]) for p in pk)
    if len(keys) != len(pk):
        raise Shape("duplicate name+version in Cargo.lock (two sources for one package): cannot resolve by name+version")

    def resolve(owner, dep):
        parts = dep.split(" ")
        if len(parts) == 1:
            c = by_name.get(parts[0], [])
            if len(c) != 1:
                raise Shape("dependency %r of %s is ambiguous or missing in Cargo.lock" % (dep, owner))
            return (c[0]["name"], c[0]["version"])
        if len(parts) in (2, 3) and (parts[0], parts[1]) in keys:
            return (parts[0], parts[1])
        raise Shape("dependency %r of %s has a shape I do not know" % (dep, owner))

    graph = {}
    for p in pk:
        k = (p["name"], p["version"])
        graph[k] = [resolve(k, d) for d in p.get("dependencies", [])]
    third_party = set(k for p in pk for k in [(p["name"], p["version"])] if "source" in p)
    return graph, third_party


def dep_names(table):
    """names of the packages a Cargo.toml dependency table refers to (honours `package = "real-name"`)"""
    out = set()
    for k, v in (table or {}).items():
        out.add(v.get("package", k) if isinstance(v, dict) else k)
    return out


def workspace_edges(repo, graph, third_party):
    ws = tomllib.load(open(os.path.join(repo, "Cargo.toml"), "rb"))
    members = ws.get("workspace", {}).get("members")
    if not isinstance(members, list) or not members:
        raise Shape("/repo/Cargo.toml has no [workspace] members list")
    local = sorted(k for k in graph if k not in third_party)
    by_local_name = {k[0]: k for k in local}
    if sorted(by_local_name) != sorted(os.path.basename(m) for m in members):
        raise Shape("workspace members %r differ from the path packages of Cargo.lock %r" % (members, sorted(by_local_name)))
    dev_only = []
    for m in members:
        man = tomllib.load(open(os.path.join(repo, m, "Cargo.toml"), "rb"))
        name = man["package"]["name"]
        k = by_local_name.get(name)
        if k is None:
            raise Shape("workspace member %s is not in Cargo.lock" % name)
        shipped = dep_names(man.get("dependencies")) | dep_names(man.get("build-dependencies"))
        for tgt in (man.get("target") or {}).values():
            shipped |= dep_names(tgt.get("dependencies")) | dep_names(tgt.get("build-dependencies"))
        dev = dep_names(man.get("dev-dependencies"))
        for tgt in (man.get("target") or {}).values():
            dev |= dep_names(tgt.get("dev-dependencies"))
        locked = {d[0] for d in graph[k]}
        missing = [d for d in shipped if d not in locked]
        if missing:
            raise Shape("%s/Cargo.toml depends on %s, which Cargo.lock does not list for it (stale lock file?)" % (m, missing))
        unknown = [d for d in locked if d not in shipped and d not in dev]
        if unknown:
            raise Shape("Cargo.lock gives %s dependencies %s that its Cargo.toml does not declare" % (name, unknown))
        keep = [d for d in graph[k] if d[0] in shipped]
        dev_only += [(k, d) for d in graph[k] if d[0] not in shipped]
        graph[k] = keep
    for s in SHIPPED:
        if s not in by_local_name:
            raise Shape("shipped crate %s is not a workspace member any more" % s)
    return local, [by_local_name[s] for s in SHIPPED], dev_only


# ------------------------------------------------------------------------------------------------ (i') linked graph
LINKED_PLATFORMS = ["x86_64-unknown-linux-gnu", "wasm32-unknown-unknown"]


def linked_graph(repo, lock_keys, local):
    """what cargo itself resolves for the platforms the shipped crates are built for: `cargo metadata --offline --locked
    --filter-platform …` (feature-resolved: optional dependencies that no feature activates are absent; target-specific
    dependencies of other platforms are absent).  Edges of kind normal and build are kept, kind dev dropped."""
    import json, subprocess, tempfile
    cmd = ["cargo", "metadata", "--format-version", "1", "--offline", "--locked", "--manifest-path", os.path.join(repo, "Cargo.toml")]
    for plat in LINKED_PLATFORMS:
        cmd += ["--filter-platform", plat]
    env = dict(os.environ)
    env.setdefault("RUSTUP_TOOLCHAIN", "stable-x86_64-unknown-linux-gnu")   # not /repo's rust-toolchain.toml (network)
    env["CARGO_NET_OFFLINE"] = "true"
    try:
        pr = subprocess.run(cmd, cwd=tempfile.gettempdir(), env=env, stdout=subprocess.PIPE, stderr=subprocess.PIPE, timeout=300)
    except (OSError, subprocess.TimeoutExpired) as ex:
        raise Shape("cargo metadata could not be run: %r" % (ex,))
    if pr.returncode != 0:
        raise Shape("cargo metadata --offline --locked failed: %s" % pr.stderr.decode("utf-8", "replace")[-600:])
    meta = json.loads(pr.stdout)
    res = meta.get("resolve")
    if meta.get("version") != 1 or not isinstance(res, dict) or not isinstance(res.get("nodes"), list):
        raise Shape("cargo metadata output has a shape I do not know")
    ident = {p["id"]: (p["name"], p["version"]) for p in meta["packages"]}
    if len(set(ident.values())) != len(ident):
        raise Shape("cargo metadata: two packages with one name+version")
    out = {}
    for n in res["nodes"]:
        k = ident.get(n["id"])
        if k is None or k not in lock_keys:
            raise Shape("cargo metadata resolves %r, which Cargo.lock does not list" % (n["id"],))
        ds = []
        for d in n.get("deps", []):
            kinds = [x.get("kind") for x in d.get("dep_kinds", [])]
            if not kinds or any(x not in (None, "build", "dev") for x in kinds):
                raise Shape("cargo metadata: dependency kinds %r of %s are not ones I know" % (kinds, k))
            if any(x in (None, "build") for x in kinds):
                t = ident.get(d["pkg"])
                if t is None:
                    raise Shape("cargo metadata: %s depends on an unlisted package %r" % (k, d["pkg"]))
                ds.append(t)
        out[k] = sorted(set(ds))
    members = sorted(ident[i] for i in meta.get("workspace_members", []))
    if members != sorted(local):
        raise Shape("cargo metadata workspace members %r differ from Cargo.lock's path packages %r" % (members, sorted(local)))
    return out


# ------------------------------------------------------------------------------------------------ (ii) classes
def load_classes(third_party):
    path = os.path.join(os.path.dirname(HERE), "crate_effects.toml")
    tab = tomllib.load(open(path, "rb")).get("crate")
    if not isinstance(tab, list):
        raise Shape("tools/crate_effects.toml has no [[crate]] entries")
    rows, seen = [], set()
    for e in tab:
        k = (e.get("name"), e.get("version"))
        cl = e.get("class")
        if cl not in CLASSES:
            raise Shape("crate_effects.toml: %s has unknown class %r" % (k, cl))
        if k in seen:
            raise Shape("crate_effects.toml: %s listed twice" % (k,))
        seen.add(k)
        if k not in third_party:
            continue  # an entry for a crate that is no longer in the lock file is harmless
        counts = audit_crates.scan_cached(k[0], k[1])
        if counts is None:
            raise Shape("%s %s is not vendored under ~/.cargo/registry/src: its class cannot be re-audited" % k)
        for cat in audit_crates.CATS:
            n = counts[cat]
            needs = n > 0 and (CAT_RANK[cat] > RANK[cl] or (cat == "netact" and cl == "net-capable-runtime"))
            if needs:
                pinned = e.get("reviewed_" + cat)
                why = e.get("reviewed_%s_why" % cat, "")
                if pinned != n or not why.strip():
                    raise Shape("audit: %s %s is classed %r but its sources have %d `%s` hits (pinned: %r). "
                                "Look at them (tools/audit_crates.py %s-%s) and fix crate_effects.toml" % (k[0], k[1], cl, n, cat, pinned, k[0], k[1]))
        if RANK[cl] >= 2 and not e.get("note", "").strip():
            raise Shape("crate_effects.toml: %s is %s but has no note" % (k, cl))
        rows.append((k, cl))
    return rows


# ------------------------------------------------------------------------------------------------ (iii) sites
_TOK = re.compile(r'//[^\n]*|/\*.*?\*/|b?r(#*)".*?"\1|b?"(?:\\.|[^"\\])*"|b?\'(?:\\u\{[0-9A-Fa-f]+\}|\\.|[^\'\\\n])\'', re.S)


def blank(src):
    """(code, skel): code = comments blanked; skel = additionally string/char *contents* blanked (delimiters kept),
    both of the same length as src, so that positions agree."""
    code, skel, i = [], [], 0
    for m in _TOK.finditer(src):
        code.append(src[i:m.start()]); skel.append(src[i:m.start()])
        t = m.group(0)
        sp = re.sub(r"[^\n]", " ", t)
        if t.startswith("//") or t.startswith("/*"):
            code.append(sp); skel.append(sp)
        else:
            code.append(t)
            q = t.find('"') if '"' in t[:4 + len(m.group(1) or "")] else t.find("'")
            skel.append(t[:q + 1] + sp[q + 1:len(t) - 1 - len(m.group(1) or "")] + t[len(t) - 1 - len(m.group(1) or ""):])
        i = m.end()
    code.append(src[i:]); skel.append(src[i:])
    code, skel = "".join(code), "".join(skel)
    assert len(code) == len(src) == len(skel)
    return code, skel


def blank_cfg_test(code, skel):
    for m in re.finditer(r"#\[cfg\(test\)\]\s*(?:pub\s+)?mod\s+\w+\s*\{", skel):
        j, depth = m.end(), 1
        while j < len(skel) and depth:
            depth += (skel[j] == "{") - (skel[j] == "}")
            j += 1
        sp = re.sub(r"[^\n]", " ", skel[m.start():j])
        code = code[:m.start()] + sp + code[j:]
        skel = skel[:m.start()] + sp + skel[j:]
    return code, skel


def norm(s):
    s = re.sub(r"\s+", " ", s.strip())
    s = re.sub(r" ?([^\w\"' ]) ?", r"\1", s)
    return s


def match_paren(skel, i):
    """i = index of '(' ; returns index of the matching ')'"""
    depth = 0
    for j in range(i, len(skel)):
        c = skel[j]
        if c in "([{":
            depth += 1
        elif c in ")]}":
            depth -= 1
            if depth == 0:
                return j
    raise Shape("unbalanced parenthesis")


def functions(skel):
    """[(name, body_start, body_end)] for every fn with a body"""
    out = []
    for m in re.finditer(r"\bfn\s+(\w+)", skel):
        j, pd = m.end(), 0
        while j < len(skel):
            c = skel[j]
            if c in "([":
                pd += 1
            elif c in ")]":
                pd -= 1
            elif c == ";" and pd == 0:
                j = -1
                break
            elif c == "{" and pd == 0:
                break
            j += 1
        if j < 0 or j >= len(skel):
            continue
        e = match_paren(skel, j)
        out.append((m.group(1), j, e))
    return out


def enclosing_fn(fns, pos):
    best = None
    for n, a, b in fns:
        if a < pos < b and (best is None or a > best[1]):
            best = (n, a, b)
    return best


def depth_array(skel):
    d, out = 0, []
    for c in skel:
        if c == "}":
            d -= 1
        out.append(d)
        if c == "{":
            d += 1
    return out


def enclosing_arm(code, skel, depth, fn, pos):
    """the string literal of the innermost `"lit" =>` match arm (inside fn) that contains pos, or ''"""
    if fn is None:
        return ""
    best = ""
    for m in re.finditer(r'"([^"\\\n]*)"\s*=>', code[fn[1]:pos]):
        a = fn[1] + m.start()
        if skel[a] != '"':
            continue
        d = depth[a]
        if min(depth[a:pos + 1]) >= d:
            best = m.group(1)
    return best


def binding_of(code, skel, fn, ident, pos):
    """the expression an identifier was bound to by the nearest preceding `let [Some(]ident[)] = expr` in fn"""
    if fn is None or not re.fullmatch(r"\w+", ident):
        return ""
    found = ""
    for m in re.finditer(r"\blet\s+(?:mut\s+)?(?:Some\(\s*%s\s*\)|Ok\(\s*%s\s*\)|%s)\s*(?::[^=]+)?=\s*" % ((re.escape(ident),) * 3), skel[fn[1]:pos]):
        s = fn[1] + m.end()
        j, pd = s, 0
        while j < len(skel):
            c = skel[j]
            if c in "([":
                pd += 1
            elif c in ")]":
                pd -= 1
            elif pd == 0 and (c == ";" or c == "{"):
                break
            j += 1
        found = re.sub(r"\belse$", "", norm(code[s:j]))
    return found


_RUST_WORDS = {"as", "async", "await", "break", "const", "continue", "crate", "dyn", "else", "enum", "false", "fn", "for", "if", "impl",
               "in", "let", "loop", "match", "mod", "move", "mut", "pub", "ref", "return", "self", "static", "struct", "super", "trait",
               "true", "type", "unsafe", "use", "where", "while"}


def _idents(expr):
    """bare lower-case identifiers of an expression (as written): not a field / method / path segment / call / macro"""
    e = re.sub(r'b?"(?:\\.|[^"\\])*"', '""', expr)
    return [w for w in re.findall(r"(?<![\w\.:])[a-z_]\w*\b(?!\s*(?:\(|::|!))", e) if w not in _RUST_WORDS]


def _expr_end(skel, s):
    j, pd = s, 0
    while j < len(skel):
        c = skel[j]
        if c in "([":
            pd += 1
        elif c in ")]":
            pd -= 1
        elif pd == 0 and (c == ";" or c == "{"):
            break
        j += 1
    return j


def local_rows(rel, code, skel, fn, exprs):
    """KLocal rows: how the local variables that the path expressions `exprs` of the write sites of `fn` mention are
    computed, transitively: every `let [mut] x = e` / `let Some(x) = e` of x inside fn (shadowing included), every
    statement `x.method(args);` (in-place mutation such as push) and every assignment `x = e;` / `x op= e;`.
    An identifier without any such statement is a parameter / an outer item and gets no row."""
    a, b = fn[1], fn[2]
    rows, seen, todo = [], set(), []
    for e in exprs:
        todo += _idents(e)
    while todo:
        x = todo.pop(0)
        if x in seen:
            continue
        seen.add(x)
        found = []
        xe = re.escape(x)
        for m in re.finditer(r"\blet\s+(mut\s+)?(Some\(\s*%s\s*\)|Ok\(\s*%s\s*\)|%s)\s*(?::[^=]+)?=(?!=)\s*" % (xe, xe, xe), skel[a:b]):
            s0 = a + m.end()
            j = _expr_end(skel, s0)
            found.append((a + m.start(), "let " + norm(m.group(2)), re.sub(r"\belse$", "", norm(code[s0:j]))))
        for m in re.finditer(r"\blet\s+\(([^()=]*)\)\s*(?::[^=]+)?=(?!=)\s*", skel[a:b]):
            if x in [w.strip().replace("mut ", "") for w in m.group(1).split(",")]:
                s0 = a + m.end()
                found.append((a + m.start(), "let (%s)" % norm(m.group(1)), norm(code[s0:_expr_end(skel, s0)])))
        for m in re.finditer(r"(?<=[;{}])\s*%s\s*\.\s*(\w+)\s*\(" % xe, skel[a:b]):
            o = a + m.end() - 1
            found.append((a + m.start(), "%s.%s" % (x, m.group(1)), norm(code[o + 1:match_paren(skel, o)])))
        for m in re.finditer(r"(?<=[;{}])\s*%s\s*([-+*/|&^]?=)(?!=)\s*" % xe, skel[a:b]):
            s0 = a + m.end()
            found.append((a + m.start(), "%s %s" % (x, m.group(1)), norm(code[s0:_expr_end(skel, s0)])))
        for _, api, arg in sorted(found):
            rows.append(dict(file=rel, fn=fn[0], kind="KLocal", api=api, arg=arg, bind="", arm=""))
            todo += _idents(arg)
    return rows


NET_PATH = r"\b(?:std|core|tokio|mio|async_std|smol)::net\b"
# (kind, api label or None = matched text, regex, takes_args)
CALLS = [
    ("KNet", None, r"\b(?:Tcp(?:Stream|Listener|Socket)|UdpSocket|Unix(?:Stream|Listener|Datagram))::\w+", True),
    ("KNet", None, r"(?<!::)\b(?:Tcp(?:Stream|Listener|Socket)|UdpSocket|Unix(?:Stream|Listener|Datagram)|ToSocketAddrs|SocketAddr\w*|IpAddr|Ipv[46]Addr)\b(?!::)", False),
    ("KNet", None, r"\b(?:to_socket_addrs|socket_addrs|lookup_host|getaddrinfo|gethostbyname)\b", True),
    ("KNet", None, r"\b(?:libc|socket2|mio|nix|rustix)::\w+", True),
    ("KNet", None, r"\b(?:reqwest|ureq|hyper|curl|isahc|surf|attohttpc|minreq|tungstenite|tiny_http|web_sys)::\w+", True),
    ("KNet", "extern-block", r'\bextern\s+"(?:C|system)"', False),
    ("KNetMethod", None, r"\.\s*(?:connect|bind|accept|listen|send_to|connect_timeout)\s*(?=\()", True),
    ("KFsWrite", None, r"\bFile::(?:create|create_new|options)\b", True),
    ("KFsWrite", "OpenOptions", r"\bOpenOptions::new\b", True),
    ("KFsWrite", None, r"\bfs::(?:write|remove_file|remove_dir|remove_dir_all|rename|copy|create_dir|create_dir_all|hard_link|soft_link|set_permissions)\b", True),
    ("KFsWrite", None, r"\b(?:symlink|symlink_file|symlink_dir|DirBuilder::new|NamedTempFile::\w+|tempfile::\w+|tempdir|temp_dir)\b", True),
    ("KProcess", None, r"\bprocess::Command\b|\bopen::(?:that\w*|with\w*|commands|with_command)\b", True),
]
# `use` statements are classified on their whole (whitespace-normalised) path text, so that nested forms such as
# `use std::{io, net::TcpStream as T};` or a glob `use std::fs::*;` are seen as well
IMPORT_KINDS = [
    ("KNetImport", re.compile(r"\bnet\b|\bTcp(?:Stream|Listener|Socket)\b|\bUdpSocket\b|\bUnix(?:Stream|Listener|Datagram)\b|\bToSocketAddrs\b"
                              r"|\b(?:socket2|mio|libc|nix|rustix|reqwest|ureq|hyper|curl|isahc|surf|attohttpc|minreq|tiny_http|web_sys|tungstenite)\b")),
    ("KProcImport", re.compile(r"\bprocess\b|^open\b|\bopen::")),
    ("KFsImport", re.compile(r"\bfs\b|\btempfile\b|\bOpenOptions\b|\bDirBuilder\b")),
]


def scan_file(rel, src):
    code, skel = blank(src)
    code, skel = blank_cfg_test(code, skel)
    fns = functions(skel)
    depth = depth_array(skel)
    sites = []

    # `use` statements (module level or inside a fn)
    uses = [(m.start(), m.end(), norm(code[m.start() + 3:m.end() - 1]).lstrip()) for m in re.finditer(r"\buse\s[^;]*;", skel)]
    use_spans = [(a, b) for a, b, _ in uses]

    def in_use(pos):
        return any(a <= pos < b for a, b in use_spans)

    for a, b, path in uses:
        fn = enclosing_fn(fns, a)
        for kind, rx in IMPORT_KINDS:
            if rx.search(path):   # one row per kind the statement brings into scope
                sites.append(dict(file=rel, fn=fn[0] if fn else "<module>", kind=kind, api=path, arg="", bind="", arm=""))

    # does this file's `Command` mean std::process::Command?
    cmd_is_process = None
    for _, _, path in uses:
        if re.search(r"\bCommand\b", path):
            if re.search(r"\bprocess\b", path):
                cmd_is_process = True
            elif re.search(r"\b(?:lsp_types|clap)\b", path):
                cmd_is_process = False if cmd_is_process is None else cmd_is_process
            else:
                raise Shape("%s: cannot tell which `Command` is imported by `use %s`" % (rel, path))
    for m in re.finditer(r"(?<![\w:])Command::\w+", skel):
        if cmd_is_process is None:
            raise Shape("%s: `Command::…` used but no `use` resolves it" % rel)
    calls = list(CALLS)
    if cmd_is_process:
        calls.append(("KProcess", None, r"(?<![\w:])Command::\w+", True))

    taken = set()
    for kind, label, rx, takes_args in calls:
        for m in re.finditer(rx, skel):
            pos = m.start()
            if in_use(pos) or pos in taken:
                continue
            taken.add(pos)
            api = label or norm(code[m.start():m.end()])
            fn = enclosing_fn(fns, pos)
            arg, bind = "", ""
            j = m.end()
            while j < len(skel) and skel[j].isspace():
                j += 1
            if takes_args and j < len(skel) and skel[j] == "(":
                e = match_paren(skel, j)
                arg = norm(code[j + 1:e])
                if label == "OpenOptions":
                    # the path is the argument of the `.open(` that ends the builder chain of this statement
                    stmt_end = skel.find(";", e)
                    mo = re.search(r"\.\s*open\s*\(", skel[e:stmt_end if stmt_end > 0 else len(skel)])
                    if mo:
                        o = e + mo.end() - 1
                        api = "OpenOptions::new()" + norm(code[e + 1:e + mo.start()]) + ".open"
                        arg = norm(code[o + 1:match_paren(skel, o)])
                    else:
                        arg = "<no .open( in this statement>"
            if kind == "KNetMethod":
                mr = re.search(r"([\w\.]+)\s*$", skel[:pos])
                recv = norm(mr.group(1)) if mr else "<expr>"
                api = recv + api
                bind = binding_of(code, skel, fn, recv, pos)
                kind = "KNet"
            else:
                probe = arg.lstrip("&")
                if re.fullmatch(r"\w+", probe or " "):
                    bind = binding_of(code, skel, fn, probe, pos)
            sites.append(dict(file=rel, fn=fn[0] if fn else "<module>", kind=kind, api=api, arg=arg, bind=bind,
                              arm=enclosing_arm(code, skel, depth, fn, pos)))
    # dataflow of the locals that the path arguments of the write sites are computed from (per enclosing fn)
    by_fn = {}
    for st in sites:
        if st["kind"] == "KFsWrite" and st["fn"] != "<module>":
            by_fn.setdefault(st["fn"], []).extend([st["arg"], st["bind"]])
    for fname in sorted(by_fn):
        cands = [f for f in fns if f[0] == fname]
        if len(cands) != 1:
            raise Shape("%s: %d functions named %s hold a write site: cannot attribute local definitions" % (rel, len(cands), fname))
        seen_rows = set()
        for r in local_rows(rel, code, skel, cands[0], by_fn[fname]):
            key = (r["api"], r["arg"])
            if key not in seen_rows:
                seen_rows.add(key)
                sites.append(r)
    # inline mentions of a net path outside `use`
    for m in re.finditer(NET_PATH + r"(?:::\w+)*", skel):
        if in_use(m.start()):
            continue
        fn = enclosing_fn(fns, m.start())
        sites.append(dict(file=rel, fn=fn[0] if fn else "<module>", kind="KNet", api=norm(code[m.start():m.end()]), arg="", bind="",
                          arm=enclosing_arm(code, skel, depth, fn, m.start())))
    return sites, (code, skel, fns, depth)


def workspace_files(repo, members):
    out = []
    for mname in members:
        root = os.path.join(repo, mname)
        if os.path.exists(os.path.join(root, "build.rs")):
            out.append(os.path.join(mname, "build.rs"))
        for d, dirs, fs in os.walk(os.path.join(root, "src")):
            dirs[:] = sorted(x for x in dirs if x not in ("tests", "benches", "examples"))
            for f in sorted(fs):
                if f.endswith(".rs"):
                    out.append(os.path.relpath(os.path.join(d, f), repo))
    return out


def wrapper_rows(parsed, sites):
    """callers of every fn that contains a write site, and the tail expression of `self.helper(…)` path functions
    that those callers pass"""
    wrappers = sorted({s["fn"] for s in sites if s["kind"] == "KFsWrite" and s["fn"] != "<module>"})
    rows = []
    for w in wrappers:
        for rel, (code, skel, fns, depth) in parsed.items():
            for m in re.finditer(r"(?<![\w])%s\s*\(" % re.escape(w), skel):
                if re.search(r"\bfn\s+$", skel[:m.start()]):
                    continue
                fn = enclosing_fn(fns, m.start())
                o = m.end() - 1
                args = code[o + 1:match_paren(skel, o)]
                # first argument = up to the first top-level comma
                pd, cut = 0, len(args)
                sk = skel[o + 1:o + 1 + len(args)]
                for i, c in enumerate(sk):
                    if c in "([{":
                        pd += 1
                    elif c in ")]}":
                        pd -= 1
                    elif c == "," and pd == 0:
                        cut = i
                        break
                first = norm(args[:cut])
                recv = "self." if re.search(r"self\s*\.\s*$", skel[:m.start()]) else ""
                rows.append(dict(file=rel, fn=fn[0] if fn else "<module>", kind="KWrapperCall", api=recv + w, arg=first, bind="",
                                 arm=enclosing_arm(code, skel, depth, fn, m.start())))
                for h in re.finditer(r"self\.(\w+)\(", first):
                    for n, a, b in fns:
                        if n == h.group(1):
                            body = code[a + 1:b]
                            sb = skel[a + 1:b]
                            k = sb.rfind(";")
                            rows.append(dict(file=rel, fn=n, kind="KPathFn", api="tail-expression", arg=norm(body[k + 1:]), bind="", arm=""))
    # where the locals of the path argument of each wrapper call come from
    for r in [r for r in rows if r["kind"] in ("KWrapperCall", "KPathFn") and r["fn"] != "<module>"]:
        code, skel, fns, depth = parsed[r["file"]]
        cands = [f for f in fns if f[0] == r["fn"]]
        if len(cands) != 1:
            raise Shape("%s: %d functions named %s call a writing function" % (r["file"], len(cands), r["fn"]))
        rows += local_rows(r["file"], code, skel, cands[0], [r["arg"]])
    # de-duplicate KPathFn / KLocal rows
    uniq, seen = [], set()
    for r in rows:
        key = tuple(sorted(r.items()))
        if key not in seen:
            seen.add(key)
            uniq.append(r)
    return uniq


# ------------------------------------------------------------------------------------------------ emit
def q(s):
    if any(ord(c) > 126 or ord(c) < 32 for c in s):
        s = "".join(c if 32 <= ord(c) <= 126 else "?" for c in s)
    return '"' + s.replace('"', '""') + '"'


def pk(k):
    return "(%s, %s)" % (q(k[0]), q(k[1]))


def generate(repo):
    graph, third_party = parse_lock(repo)
    local, roots, dev_only = workspace_edges(repo, graph, third_party)
    classes = load_classes(third_party)
    linked = linked_graph(repo, set(graph), local)
    members = [k[0] for k in local]
    files = workspace_files(repo, members)
    if not any(f == "harper-ls/src/main.rs" for f in files) or not any(f == "harper-ls/src/backend.rs" for f in files):
        raise Shape("harper-ls/src/{main,backend}.rs not found")
    sites, parsed = [], {}
    for rel in files:
        src = open(os.path.join(repo, rel), encoding="utf-8").read()
        s, p = scan_file(rel, src)
        sites += s
        parsed[rel] = p
    sites += wrapper_rows(parsed, sites)
    main_src = open(os.path.join(repo, "harper-ls/src/main.rs"), encoding="utf-8").read()
    mcode, _ = blank(main_src)
    defs = re.findall(r'\b(?:static|const)\s+DEFAULT_ADDRESS\s*:\s*&(?:\'static\s+)?str\s*=\s*"([^"\\]*)"\s*;', mcode)
    if len(defs) != 1:
        raise Shape("expected exactly one `static DEFAULT_ADDRESS: &str = \"…\";` in harper-ls/src/main.rs, found %d" % len(defs))
    all_defs = 0
    for rel in files:
        all_defs += len(re.findall(r"\b(?:static|const|let)\s+(?:mut\s+)?DEFAULT_ADDRESS\b", parsed[rel][1]))

    # which Config field each settings key of Config::from_lsp_config assigns (F18 was `statsPath` -> file_dict_path)
    crel = "harper-ls/src/config.rs"
    if crel not in parsed:
        raise Shape("harper-ls/src/config.rs not found")
    ccode, cskel, cfns, _ = parsed[crel]
    cfg_fn = [f for f in cfns if f[0] == "from_lsp_config"]
    if not cfg_fn:
        raise Shape("Config::from_lsp_config not found")
    n_, a_, b_ = max(cfg_fn, key=lambda f: f[2] - f[1])      # Config's (the larger one), not CodeActionConfig's
    config_fields = []
    for m in re.finditer(r'if\s+let\s+Some\(\s*\w+\s*\)\s*=\s*value\s*\.\s*get\(\s*"', cskel[a_:b_]):
        k0 = a_ + m.end()
        key = ccode[k0:ccode.index('"', k0)]
        ob = cskel.index("{", k0)
        cb = match_paren(cskel, ob)
        fields = sorted(set(re.findall(r"\bbase\s*\.\s*(\w+)(?:\s*\.\s*\w+)*\s*=(?!=)", cskel[ob:cb])))
        config_fields.append((key, fields))
    if not {"userDictPath", "fileDictPath", "statsPath"} <= {k for k, _ in config_fields}:
        raise Shape("Config::from_lsp_config no longer reads userDictPath/fileDictPath/statsPath the way I know: %r" % config_fields)

    o = ["(* GENERATED by tools/tables/effects.py from /repo (Cargo.lock, Cargo.toml files, harper-*/src) and",
         "   tools/crate_effects.toml — do not edit.  Regenerated on every ./check C10. *)",
         "From Coq Require Import List String.", "Require Import EffectsBase.", "Import ListNotations.", "Open Scope string_scope.", ""]
    o.append("(* (i) resolved dependency graph: package = (name, version); shipped edges only for workspace members *)")
    o.append("Definition lock_graph : list (pkg * list pkg) := [")
    o.append(";\n".join("  (%s, [%s])" % (pk(k), "; ".join(pk(d) for d in graph[k])) for k in sorted(graph)))
    o.append("].\n")
    o.append("(* (i') what `cargo metadata --offline --locked` resolves for the platforms the shipped crates are built for")
    o.append("   (feature-resolved; edges of kind normal + build; dev edges dropped): the crates that can actually be linked *)")
    o.append("Definition linked_platforms : list string := [%s].\n" % "; ".join(q(x) for x in LINKED_PLATFORMS))
    o.append("Definition linked_graph : list (pkg * list pkg) := [")
    o.append(";\n".join("  (%s, [%s])" % (pk(k), "; ".join(pk(d) for d in linked[k])) for k in sorted(linked)))
    o.append("].\n")
    o.append("Definition workspace_members : list pkg := [%s].\n" % "; ".join(pk(k) for k in local))
    o.append("Definition ship_roots : list pkg := [%s].\n" % "; ".join(pk(k) for k in roots))
    o.append("(* edges of workspace members that exist only through [dev-dependencies]: not shipped, not in lock_graph *)")
    o.append("Definition dev_only_edges : list (pkg * pkg) := [%s].\n" % ";\n  ".join("(%s, %s)" % (pk(a), pk(b)) for a, b in dev_only))
    o.append("(* (ii) audited class of third-party packages (tools/crate_effects.toml, re-scanned) *)")
    o.append("Definition crate_class : list (pkg * eclass) := [")
    o.append(";\n".join("  (%s, %s)" % (pk(k), CLASSES[c]) for k, c in sorted(classes)))
    o.append("].\n")
    o.append("(* (iii) OS-effect API mentions in workspace sources: file, enclosing fn, kind, api, argument, binding, match arm *)")
    o.append("Definition effect_sites : list site := [")
    o.append(";\n".join("  mksite %s %s %s %s %s %s %s" % (q(s["file"]), q(s["fn"]), s["kind"], q(s["api"]), q(s["arg"]), q(s["bind"]), q(s["arm"]))
                        for s in sites))
    o.append("].\n")
    o.append("Definition scanned_files : nat := %d.\n" % len(files))
    o.append("(* settings key of Config::from_lsp_config -> the Config fields its block assigns *)")
    o.append("Definition config_fields : list (string * list string) := [%s].\n" % "; ".join("(%s, [%s])" % (q(k), "; ".join(q(f) for f in fs)) for k, fs in config_fields))
    o.append("(* (iv) the listener address *)")
    o.append("Definition default_address : string := %s." % q(defs[0]))
    o.append("Definition default_address_definitions : nat := %d." % all_defs)
    return "\n".join(o) + "\n"


if __name__ == "__main__":
    sys.stdout.write(generate(os.environ.get("VERIF_REPO", "/repo")))
