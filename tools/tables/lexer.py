"""lexer.py — translator for the data tables the lexer / condense models (C02, C12) rest on.
Reads the Rust sources and emits coq/Model/Tables_lexer.v:
  * enum Currency + Currency::from_char, enum Punctuation + Punctuation::from_char   (punctuation.rs, currency.rs)
  * the quote characters of lex_quote, the float characters of lex_number               (lexing/mod.rs)
  * the character classes of lexing/url.rs and lexing/email_address.rs
  * TokenKind::is_sentence_terminator / is_chunk_terminator                               (token_kind.rs)
  * NumberSuffix + from_chars + to_chars                                                  (number.rs)
  * the words of the Latin condense pattern                                               (document.rs)
It also re-checks (and raises otherwise) the two *orders* the hand-written models copy: the lexer
dispatch order of lex_token and the pass order of Document::parse."""
import re, os


class Shape(Exception):
    pass


def rd(repo, rel):
    return open(os.path.join(repo, rel), encoding="utf-8").read()


def strip_tests(src):
    i = src.find("#[cfg(test)]")
    return src if i < 0 else src[:i]


_ESC = {"n": 10, "t": 9, "r": 13, "0": 0, "\\": 92, "'": 39, '"': 34}


def char_lit(tok):
    """Rust char literal (with the quotes) -> code point"""
    assert tok[0] == "'" and tok[-1] == "'", tok
    body = tok[1:-1]
    if body.startswith("\\u{"):
        return int(body[3:-1], 16)
    if body.startswith("\\"):
        if body[1] not in _ESC or len(body) != 2:
            raise Shape("unknown escape " + tok)
        return _ESC[body[1]]
    if len(body) != 1:
        raise Shape("bad char literal " + tok)
    return ord(body)


CHAR_RE = r"'(?:\\u\{[0-9A-Fa-f]+\}|\\.|[^'\\])'"


def fn_body(src, name):
    m = re.search(r"fn\s+%s\b[^{]*\{" % re.escape(name), src)
    if not m:
        raise Shape("fn %s not found" % name)
    i = m.end()
    depth = 1
    j = i
    while depth > 0:
        if j >= len(src):
            raise Shape("unbalanced body of " + name)
        ch = src[j]
        # skip char literals so that '{' '}' inside them do not count
        mm = re.match(CHAR_RE, src[j:])
        if mm:
            j += mm.end()
            continue
        if ch == "{":
            depth += 1
        elif ch == "}":
            depth -= 1
        j += 1
    return src[i:j - 1]


def enum_variants(src, name):
    m = re.search(r"pub enum %s\s*\{(.*?)\n\}" % name, src, re.S)
    if not m:
        raise Shape("enum %s not found" % name)
    out = []
    for line in m.group(1).split("\n"):
        s = line.strip()
        if not s or s.startswith("//") or s.startswith("#["):
            continue
        mm = re.match(r"([A-Z]\w*)\s*(\(([^)]*)\))?\s*,?$", s)
        if not mm:
            raise Shape("enum %s: cannot read variant line %r" % (name, s))
        out.append((mm.group(1), mm.group(3)))
    return out


def match_char_table(body, enum, self_alias=None):
    """lines  'c' => Enum::Variant,   -> [(cp, Variant)]"""
    rows = []
    for mm in re.finditer(r"(%s)\s*=>\s*(?:%s)::(\w+)\s*," % (CHAR_RE, "|".join([enum] + ([self_alias] if self_alias else []))), body):
        rows.append((char_lit(mm.group(1)), mm.group(2)))
    return rows


def matches_chars(src, fname):
    """fn f(c: char) -> bool { matches!(c, 'a' | 'b' ...) }  -> [cp]"""
    body = fn_body(src, fname)
    m = re.search(r"matches!\(\s*c\s*,(.*?)\)\s*$", body.strip(), re.S)
    if not m:
        raise Shape("fn %s is no longer a single matches!(c, ...)" % fname)
    toks = re.findall(CHAR_RE, m.group(1))
    rest = re.sub(CHAR_RE, "", m.group(1))
    if re.sub(r"[\s|]", "", rest):
        raise Shape("fn %s: unexpected pattern %r" % (fname, rest))
    return [char_lit(t) for t in toks]


def nlist(xs):
    return "[" + "; ".join("%d" % x for x in xs) + "]%N"


def text_of(s):
    return nlist([ord(c) for c in s])


EXPECTED_LEXERS = ["lex_regexish", "lex_punctuation", "lex_tabs", "lex_spaces", "lex_newlines", "lex_plural_digit",
                   "lex_hex_number", "lex_long_decade", "lex_number", "lex_url", "lex_email_address",
                   "lex_hostname_token", "lex_word", "lex_catch"]
EXPECTED_PASSES = ["condense_spaces", "condense_newlines", "newlines_to_breaks", "condense_number_suffixes",
                   "condense_contractions", "condense_dotted_initialisms", "condense_ellipsis", "condense_latin",
                   "match_quotes", "articles_imply_nouns"]


def generate(repo):
    core = "harper-core/src/"
    punct_src = strip_tests(rd(repo, core + "punctuation.rs"))
    cur_src = strip_tests(rd(repo, core + "currency.rs"))
    lex_src = strip_tests(rd(repo, core + "lexing/mod.rs"))
    url_src = strip_tests(rd(repo, core + "lexing/url.rs"))
    mail_src = strip_tests(rd(repo, core + "lexing/email_address.rs"))
    host_src = strip_tests(rd(repo, core + "lexing/hostname.rs"))
    kind_src = strip_tests(rd(repo, core + "token_kind.rs"))
    num_src = strip_tests(rd(repo, core + "number.rs"))
    doc_src = strip_tests(rd(repo, core + "document.rs"))

    out = []
    w = out.append
    w("(* Tables_lexer.v — GENERATED by tools/tables/lexer.py from the Rust sources of /repo; do not edit.")
    w("   Regenerated on every ./check C02 / C12 run; theorems that mention these tables are re-checked")
    w("   against what the code says now. *)")
    w("From Coq Require Import List NArith Bool.")
    w("Import ListNotations.")
    w("Local Open Scope N_scope.")
    w("")

    # ---- Currency
    cur_vars = enum_variants(cur_src, "Currency")
    if any(a for _, a in cur_vars):
        raise Shape("Currency variant with payload")
    cur_rows = match_char_table(fn_body(cur_src, "from_char"), "Currency", "Self")
    if {v for _, v in cur_rows} != {v for v, _ in cur_vars}:
        raise Shape("Currency::from_char does not cover exactly the variants")
    w("Inductive currency := " + " | ".join("Cur" + v for v, _ in cur_vars) + ".")
    w("Definition currency_from_char (c : N) : option currency :=")
    for cp, v in cur_rows:
        w("  if c =? %d then Some Cur%s else" % (cp, v))
    w("  None.")
    w("")

    # ---- Punctuation
    p_vars = enum_variants(punct_src, "Punctuation")
    ctors = []
    for v, arg in p_vars:
        if arg is None:
            ctors.append("P" + v)
        elif v == "Quote" and arg.strip() == "Quote":
            ctors.append("PQuote (twin_loc : option nat)")
        elif v == "Currency" and arg.strip() == "Currency":
            ctors.append("PCurrency (cur : currency)")
        else:
            raise Shape("Punctuation variant %s(%s) unknown" % (v, arg))
    w("Inductive punct :=\n  | " + "\n  | ".join(ctors) + ".")
    fc = fn_body(punct_src, "from_char")
    p_rows = match_char_table(fc, "Punctuation")
    if not re.search(r"_\s*=>\s*Punctuation::Currency\(Currency::from_char\(c\)\?\)", fc):
        raise Shape("Punctuation::from_char: fall-through arm is no longer Currency::from_char(c)?")
    n_arms = len(re.findall(r"=>", fc))
    if n_arms != len(p_rows) + 1:
        raise Shape("Punctuation::from_char: %d arms but %d recognised" % (n_arms, len(p_rows) + 1))
    simple = {v for v, a in p_vars if a is None}
    for cp, v in p_rows:
        if v not in simple:
            raise Shape("from_char maps to non-nullary variant " + v)
    w("Definition punct_from_char (c : N) : option punct :=")
    for cp, v in p_rows:
        w("  if c =? %d then Some P%s else" % (cp, v))
    w("  match currency_from_char c with Some k => Some (PCurrency k) | None => None end.")
    w("Definition punct_table : list (N * punct) :=\n  [" + "; ".join("(%d, P%s)" % (cp, v) for cp, v in p_rows) + "].")
    w("Definition currency_table : list (N * currency) :=\n  [" + "; ".join("(%d, Cur%s)" % (cp, v) for cp, v in cur_rows) + "].")
    # variant names (code points), used by the model driver to print kinds the way the harness prints Rust's Debug names
    w("Definition currency_name (c : currency) : list N :=\n  match c with " + " | ".join("Cur%s => %s" % (v, text_of(v)) for v, _ in cur_vars) + " end.")
    pn = []
    for v, arg in p_vars:
        pn.append("P%s%s => %s" % (v, " _" if arg is not None else "", text_of(v)))
    w("Definition punct_name (p : punct) : list N :=\n  match p with " + " | ".join(pn) + " end.")
    w("")

    # ---- lex_quote
    q = fn_body(lex_src, "lex_quote")
    m = re.search(r"if\s+((?:c\s*==\s*%s\s*(?:\|\|)?\s*)+)\{" % CHAR_RE, q)
    if not m:
        raise Shape("lex_quote: condition not recognised")
    quote_chars = [char_lit(t) for t in re.findall(CHAR_RE, m.group(1))]
    w("Definition quote_chars : list N := %s." % nlist(quote_chars))

    # ---- lex_number's float characters
    b = fn_body(lex_src, "lex_number")
    m = re.search(r"position\(\|c\|\s*!\(c\.is_ascii_digit\(\)\s*\|\|\s*matches!\(c,\s*(.*?)\)\)\)", b, re.S)
    if not m:
        raise Shape("lex_number: the bound on the candidate is not recognised")
    w("Definition float_extra_chars : list N := %s." % nlist([char_lit(t) for t in re.findall(CHAR_RE, m.group(1))]))
    if "s.parse::<f64>()" not in b or "s.pop()" not in b:
        raise Shape("lex_number: longest-prefix loop not recognised")
    # b5c1992: only a FINITE parse is accepted (Lexer.parse_finite)
    if not re.search(r"if let Some\(n\) = s\.parse::<f64>\(\)\.ok\(\)\.filter\(\|n\| n\.is_finite\(\)\)\s*\{", b):
        raise Shape("lex_number: the accepted parse is no longer `s.parse::<f64>().ok().filter(|n| n.is_finite())`")
    # 7202fd4: the look-ahead of lex_plural_digit is char::is_alphanumeric (Lexer.lex_plural_digit takes `u`)
    b = fn_body(lex_src, "lex_plural_digit")
    if not re.search(r"if l == i \|\| !src\[i\]\.is_alphanumeric\(\)\s*\{", b) or \
            not re.search(r"src\.is_empty\(\) \|\| !src\[i\]\.is_ascii_alphanumeric\(\)", b):
        raise Shape("lex_plural_digit: first-character / look-ahead tests not recognised")

    # ---- url.rs classes
    for fname, cname in [("is_reserved", "url_reserved_chars"), ("is_safe", "url_safe_chars"), ("is_extra", "url_extra_chars")]:
        w("Definition %s : list N := %s." % (cname, nlist(matches_chars(url_src, fname))))
    b = fn_body(url_src, "valid_scheme_char")
    m = re.search(r"c\.is_ascii_alphabetic\(\)\s*\|\|\s*c\.is_ascii_digit\(\)\s*\|\|\s*matches!\(c,(.*?)\)", b, re.S)
    if not m:
        raise Shape("valid_scheme_char not recognised")
    w("Definition url_scheme_extra_chars : list N := %s." % nlist([char_lit(t) for t in re.findall(CHAR_RE, m.group(1))]))
    b = fn_body(url_src, "is_uchar_plus_string")
    m = re.search(r"matches!\(source\[cursor\],(.*?)\)", b, re.S)
    if not m:
        raise Shape("is_uchar_plus_string not recognised")
    w("Definition url_uchar_plus_chars : list N := %s." % nlist([char_lit(t) for t in re.findall(CHAR_RE, m.group(1))]))
    b = fn_body(url_src, "is_unreserved")
    if not re.search(r"c\.is_ascii_alphabetic\(\)\s*\|\|\s*c\.is_ascii_digit\(\)\s*\|\|\s*is_safe\(c\)\s*\|\|\s*is_extra\(c\)", b):
        raise Shape("is_unreserved not recognised")

    # ---- email_address.rs classes
    b = fn_body(mail_src, "valid_unquoted_character")
    m = re.search(r"let others = \[(.*?)\];", b, re.S)
    if not m or "c > '\\u{007F}'" not in b:
        raise Shape("valid_unquoted_character not recognised")
    w("Definition email_other_chars : list N := %s." % nlist([char_lit(t) for t in re.findall(CHAR_RE, m.group(1))]))
    b = fn_body(mail_src, "validate_local_part")
    m = re.search(r"let also_valid = \[(.*?)\];", b, re.S)
    if not m or "local_part.len() > 64" not in b:
        raise Shape("validate_local_part not recognised")
    w("Definition email_also_valid_chars : list N := %s." % nlist([char_lit(t) for t in re.findall(CHAR_RE, m.group(1))]))
    if not re.search(r"'A'\.\.='Z' \| 'a'\.\.='z' \| '0'\.\.='9' \| '-'", fn_body(host_src, "lex_hostname")):
        raise Shape("lex_hostname character class changed")
    w("")

    # ---- terminators
    b = fn_body(kind_src, "is_sentence_terminator")
    m = re.search(r"TokenKind::Punctuation\(punct\)\s*=>\s*\[(.*?)\]\s*\.contains\(punct\)", b, re.S)
    if not m or not re.search(r"TokenKind::ParagraphBreak\s*=>\s*true", b):
        raise Shape("is_sentence_terminator not recognised")
    st = re.findall(r"Punctuation::(\w+)", m.group(1))
    b = fn_body(kind_src, "is_chunk_terminator")
    m = re.search(r"matches!\(\s*punct,(.*?)\)", b, re.S)
    if not m or "self.is_sentence_terminator()" not in b:
        raise Shape("is_chunk_terminator not recognised")
    ct = re.findall(r"Punctuation::(\w+)", m.group(1))
    w("Definition punct_is_sentence_terminator (p : punct) : bool :=\n  match p with " + " | ".join("P" + v for v in st) + " => true | _ => false end.")
    w("Definition paragraph_break_is_sentence_terminator : bool := true.")
    pats = []
    for v in ct:
        pats.append("PQuote _" if v == "Quote" else "P" + v)
    w("Definition punct_is_chunk_terminator_extra (p : punct) : bool :=\n  match p with " + " | ".join(pats) + " => true | _ => false end.")
    w("")

    # ---- NumberSuffix
    s_vars = enum_variants(num_src, "NumberSuffix")
    w("Inductive num_suffix := " + " | ".join("Suf" + v for v, _ in s_vars) + ".")
    b = fn_body(num_src, "from_chars")
    rows = re.findall(r"\((%s),\s*(%s)\)\s*=>\s*Some\(NumberSuffix::(\w+)\)" % (CHAR_RE, CHAR_RE), b)
    if len(rows) != len(re.findall(r"=>\s*Some", b)) or "chars.len() < 2" not in b:
        raise Shape("NumberSuffix::from_chars not recognised")
    w("Definition suffix_table : list ((N * N) * num_suffix) :=\n  [" + "; ".join("((%d, %d), Suf%s)" % (char_lit(a), char_lit(c), v) for a, c, v in rows) + "].")
    w("Definition suffix_from_chars (a b : N) : option num_suffix :=")
    for a, c, v in rows:
        w("  if (a =? %d) && (b =? %d) then Some Suf%s else" % (char_lit(a), char_lit(c), v))
    w("  None.")
    b = fn_body(num_src, "to_chars")
    rows2 = re.findall(r"NumberSuffix::(\w+)\s*=>\s*vec!\[(%s),\s*(%s)\]" % (CHAR_RE, CHAR_RE), b)
    if {r[0] for r in rows2} != {v for v, _ in s_vars}:
        raise Shape("NumberSuffix::to_chars not recognised")
    w("Definition suffix_name (s : num_suffix) : list N :=\n  match s with " + " | ".join("Suf%s => %s" % (v, text_of(v)) for v, _ in s_vars) + " end.")
    w("Definition suffix_to_chars (s : num_suffix) : list N :=\n  match s with " + " | ".join("Suf%s => %s" % (v, nlist([char_lit(a), char_lit(c)])) for v, a, c in rows2) + " end.")
    w("")

    # ---- Latin pattern words
    b = fn_body(doc_src, "uncached_latin_pattern")
    m = re.search(r"WordSet::new\(&\[(.*?)\]\)\)\s*\.then_period\(\)", b, re.S)
    m2 = re.search(r'SequencePattern::aco\("(\w+)"\)\s*\.then_whitespace\(\)\s*\.t_aco\("(\w+)"\)\s*\.then_period\(\)', b, re.S)
    if not m or not m2 or "EitherPattern::new" not in b:
        raise Shape("Latin pattern not recognised")
    words = re.findall(r'"(\w+)"', m.group(1))
    w("Definition latin_wordset : list (list N) := [" + "; ".join(text_of(x) for x in words) + "].")
    w("Definition latin_first : list N := %s." % text_of(m2.group(1)))
    w("Definition latin_second : list N := %s." % text_of(m2.group(2)))
    b = fn_body(doc_src, "uncached_ellipsis_pattern")
    m = re.search(r"RepeatingPattern::new\(Box::new\(period\),\s*(\d+)\)", b)
    if not m or "SequencePattern::default().then_period()" not in b:
        raise Shape("ellipsis pattern not recognised")
    w("Definition ellipsis_min_repetitions : nat := %s." % m.group(1))
    b = fn_body(doc_src, "uncached_contraction_pattern")
    if re.sub(r"\s", "", b) != "Lrc::new(SequencePattern::default().then_any_word().then_apostrophe().then_any_word(),)":
        raise Shape("contraction pattern not recognised")
    w("")

    # ---- orders (checked, not emitted as data the model computes with)
    b = fn_body(lex_src, "lex_token")
    m = re.search(r"let lexers = \[(.*?)\];", b, re.S)
    if not m:
        raise Shape("lex_token: lexer list not found")
    names = [re.sub(r"//.*", "", l).strip().rstrip(",") for l in m.group(1).split("\n")]
    names = [n for n in names if n]
    if names != EXPECTED_LEXERS:
        raise Shape("lex_token dispatch order changed: %r" % names)
    b = fn_body(doc_src, "parse")
    passes = re.findall(r"self\.(\w+)\(\);", b)
    if passes != EXPECTED_PASSES:
        raise Shape("Document::parse pass order changed: %r" % passes)
    w("(* checked by the translator: lex_token tries, in this order, %s *)" % ", ".join(EXPECTED_LEXERS))
    w("(* checked by the translator: Document::parse runs, in this order, %s *)" % ", ".join(EXPECTED_PASSES))
    # ---- Markdown::parse (parsers/markdown.rs): the shapes Model/C02Markdown.v copies; tables for the parts that are lists
    md_src = strip_tests(rd(repo, "harper-core/src/parsers/markdown.rs"))
    b = fn_body(md_src, "parse")
    flat = re.sub(r"\s+", " ", re.sub(r"//[^\n]*", "", b))
    if "pulldown_cmark::Options::all() .difference(pulldown_cmark::Options::ENABLE_SMART_PUNCTUATION)" not in flat:
        raise Shape("Markdown::parse: pulldown-cmark options changed")
    if "for (event, range) in md_parser.into_offset_iter() { let behind_cursor = range.start < traversed_bytes; if range.start > traversed_bytes { traversed_chars += source_str[traversed_bytes..range.start].chars().count(); traversed_bytes = range.start; } if let Some(last) = tokens.last() { covered_until = covered_until.max(last.span.end); } if (behind_cursor || traversed_chars < covered_until) && matches!( event, pulldown_cmark::Event::SoftBreak | pulldown_cmark::Event::HardBreak | pulldown_cmark::Event::InlineMath(_) | pulldown_cmark::Event::DisplayMath(_) | pulldown_cmark::Event::Code(_) | pulldown_cmark::Event::Text(_) | pulldown_cmark::Event::Html(_) | pulldown_cmark::Event::InlineHtml(_) ) { continue; } match event {" not in flat:
        raise Shape("Markdown::parse: the cursor advance / the behind_cursor + covered_until guard (8b26ba4, b736ef8) changed")
    if "let mut covered_until = 0;" not in flat or flat.count("covered_until") != 4 or flat.count("behind_cursor") != 2:
        raise Shape("Markdown::parse: covered_until is used differently")
    brk = re.findall(r"Event::(SoftBreak|HardBreak|Start\(pulldown_cmark::Tag::List\(v\)\)) => \{ tokens\.push\(Token \{ span: Span::new_with_len\(traversed_chars, (\d+)\), kind: TokenKind::Newline\((\d+)\), \}\);", flat)
    if [x[0].split("(")[0] for x in brk] != ["SoftBreak", "HardBreak", "Start"]:
        raise Shape("Markdown::parse: SoftBreak / HardBreak / Start(List) arms not recognised: %r" % brk)
    m = re.search(r"Event::Start\(tag\) => stack\.push\(tag\), (.*?) => \{ tokens\.push\(Token \{ span: Span::new_with_len\(traversed_chars, 0\), kind: TokenKind::ParagraphBreak, \}\); stack\.pop\(\); \} pulldown_cmark::Event::End\(_\) => \{ stack\.pop\(\); \}", flat)
    if not m:
        raise Shape("Markdown::parse: the End(..) arms not recognised")
    ends = re.findall(r"Event::End\(pulldown_cmark::TagEnd::(\w+)(?:\(_\))?\)", m.group(1))
    if len(ends) != m.group(1).count("Event::End"):
        raise Shape("Markdown::parse: an End(..) pattern not recognised")
    m = re.search(r"pulldown_cmark::Event::InlineMath\(code\) \| pulldown_cmark::Event::DisplayMath\(code\) \| pulldown_cmark::Event::Code\(code\) => \{ let chunk_len = code\.chars\(\)\.count\(\); if chunk_len == 0 \{ continue; \} tokens\.push\(Token \{ span: Span::new_with_len\(traversed_chars, chunk_len\), kind: TokenKind::Unlintable, \}\); \}", flat)
    if not m:
        raise Shape("Markdown::parse: the Code / InlineMath / DisplayMath arm (with the empty-payload skip of a37d1cc) changed")
    if "pulldown_cmark::Event::Text(text) => { let chunk_len = text .chars() .count() .min(source_str[range.clone()].chars().count()); if chunk_len == 0 { continue; }" not in re.sub(r"//[^\n]*", "", b).replace("\n", " ").replace("  ", " ") and \
       "let chunk_len = text .chars() .count() .min(source_str[range.clone()].chars().count()); if chunk_len == 0 { continue; }" not in re.sub(r"\s+", " ", re.sub(r"//[^\n]*", "", b)):
        raise Shape("Markdown::parse: the clamp of a Text event to its source range (548c418) changed")
    m = re.search(r"if !\((matches!\(tag, Tag::Paragraph\).*?)\) \{ continue; \}", flat)
    if not m:
        raise Shape("Markdown::parse: the list of prose tags not recognised")
    prose = re.findall(r"matches!\(tag, Tag::(\w+)(?: \{ \.\. \})?\)( && !self\.options\.ignore_link_title)?", m.group(1))
    if len(prose) != m.group(1).count("matches!") or [t for t, c in prose if c] != ["Link"]:
        raise Shape("Markdown::parse: a prose-tag test not recognised: %r" % prose)
    if "if matches!(tag, Tag::CodeBlock(..)) {" not in flat or "if matches!(tag, Tag::Link { .. }) && self.options.ignore_link_title {" not in flat:
        raise Shape("Markdown::parse: the Unlintable cases of a Text event changed")
    if "english_parser.parse(&source[traversed_chars..traversed_chars + chunk_len]); new_tokens .iter_mut() .for_each(|token| token.span.push_by(traversed_chars));" not in flat:
        raise Shape("Markdown::parse: the inner parse of a Text chunk changed")
    if not re.search(r"Event::Html\(_content\) \| pulldown_cmark::Event::InlineHtml\(_content\) => \{ let size = _content\.chars\(\)\.count\(\); tokens\.push\(Token \{ span: Span::new_with_len\(traversed_chars, size\), kind: TokenKind::Unlintable, \}\); \}", flat):
        raise Shape("Markdown::parse: the Html arm changed")
    if not re.search(r"kind: TokenKind::Newline\(_\) \| TokenKind::ParagraphBreak, \.\. \}\) \) && source\.last\(\) != Some\(&'\\n'\) \{ tokens\.pop\(\); \} Self::remove_hidden_wikilink_tokens\(&mut tokens\); Self::remove_wikilink_brackets\(&mut tokens\); tokens$", flat.strip().rstrip("}").strip()):
        raise Shape("Markdown::parse: the final pop / the order of the two wikilink passes changed")
    hb = re.sub(r"\s+", " ", fn_body(md_src, "remove_hidden_wikilink_tokens"))
    if "to_remove.extend(open_bracket_idx..=pipe_idx); to_remove.push_back(close_bracket_idx); to_remove.push_back(close_bracket_idx + 1);" not in hb or "if pipe_idx < 2 { continue; }" not in hb or "let mut cursor = pipe_idx - 2;" not in hb or "cursor = pipe_idx + 1;" not in hb:
        raise Shape("remove_hidden_wikilink_tokens changed")
    wb = re.sub(r"\s+", " ", fn_body(md_src, "remove_wikilink_brackets"))
    if "to_remove.push_back(open_brackets_idx); to_remove.push_back(open_brackets_idx + 1); to_remove.push_back(cursor); to_remove.push_back(cursor + 1); open_brackets = None;" not in wb:
        raise Shape("remove_wikilink_brackets changed")
    w("(* Markdown::parse (checked by the translator: options, cursor advance, arms, clamp of Text events, final pop, order of the wikilink passes) *)")
    w("Definition md_break_arms : list (list N * nat * nat) := [" + "; ".join("(%s, %s%%nat, %s%%nat)" % (text_of(x[0].split("(")[0] if x[0] != "Start(pulldown_cmark::Tag::List(v))" else "StartList"), x[1], x[2]) for x in brk) + "].   (* arm, span length, Newline(n) *)")
    w("Definition md_breaking_ends : list (list N) := [" + "; ".join(text_of(x) for x in ends) + "].")
    w("Definition md_prose_tags : list (list N * bool) := [" + "; ".join("(%s, %s)" % (text_of(t), "true" if c else "false") for t, c in prose) + "].   (* tag, only when !ignore_link_title *)")
    w("")
    w("Definition lexer_count : nat := %d." % len(names))
    w("Definition pass_count : nat := %d." % len(passes))
    return "\n".join(out) + "\n"
