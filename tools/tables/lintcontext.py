"""lintcontext — the shape of what C14's model rests on, read from the Rust sources:
 * struct LintContext (ignored_lints/lint_context.rs): derives Hash, its fields in order;
 * LintContext::from_lint: which of the known window expressions it uses for the prequel and the sequel
   (0 = the code before 4550195: span.with_len(2).pulled_by(2) / span.with_len(2).pushed_by(2);
    1 = Span::new(start.saturating_sub(2), start) / Span::new_with_len(end, 2)), the chaining order prequel,
   problem, sequel, and what the closure does to each fat token: twin_loc blanked (8948350), word metadata
   blanked (483b7cf) — any other statement in that closure is an unknown shape;
 * FatToken / Quote / Number: derive Hash, fields; the variants of TokenKind (the model's `tkind` must cover them);
 * IgnoredLints: the single serialised field (the JSON key).
Raises when a shape is not one it knows."""
import os, re

def strip(code):
    return re.sub(r"//[^\n]*", "", code)

def struct(code, name):
    m = re.search(r"((?:#\[[^\]]*\]\s*)+)pub struct %s\s*\{(.*?)\n\}" % name, code, re.S)
    if not m:
        raise RuntimeError("struct %s not found" % name)
    derives = re.findall(r"derive\((.*?)\)", m.group(1), re.S)
    ds = [d.strip() for blk in derives for d in blk.split(",") if d.strip()]
    fields = re.findall(r"^\s*pub(?:\(crate\))?\s+(\w+)\s*:", m.group(2), re.M) or re.findall(r"^\s*(\w+)\s*:", m.group(2), re.M)
    return ds, fields

def enum_variants(code, name):
    m = re.search(r"pub enum %s\s*\{(.*?)\n\}" % name, code, re.S)
    if not m:
        raise RuntimeError("enum %s not found" % name)
    body = re.sub(r"#\[[^\]]*\]", "", m.group(1))
    body = re.sub(r"///[^\n]*", "", body)
    return re.findall(r"^\s*(\w+)\s*(?:\([^)]*\))?\s*,", body, re.M)

def generate(repo):
    rd = lambda rel: open(os.path.join(repo, rel), encoding="utf-8").read()
    lc_raw = rd("harper-core/src/ignored_lints/lint_context.rs")
    lc = strip(lc_raw)
    ds, fields = struct(lc_raw, "LintContext")
    m = re.search(r"pub fn from_lint\(lint: &Lint, document: &Document\) -> Self \{(.*)\n    \}", lc, re.S)
    if not m:
        raise RuntimeError("LintContext::from_lint not found")
    body = m.group(1)
    one = lambda s: re.sub(r"\s+", "", s)
    b1 = one(body)
    if "letprequel_tokens=lint.span.with_len(2).pulled_by(2).map(|v|document.token_indices_intersecting(v)).unwrap_or_default();" in b1:
        prequel = 0
    elif re.search(r"letprequel_tokens=document\.token_indices_intersecting\((?:crate::)?Span::new\(lint\.span\.start\.saturating_sub\(2\),lint\.span\.start,?\)\);", b1):
        prequel = 1
    else:
        raise RuntimeError("unknown prequel window expression in from_lint")
    if "letsequel_tokens=document.token_indices_intersecting(lint.span.with_len(2).pushed_by(2));" in b1:
        sequel = 0
    elif re.search(r"letsequel_tokens=document\.token_indices_intersecting\((?:crate::)?Span::new_with_len\(lint\.span\.end,2\)\);", b1):
        sequel = 1
    else:
        raise RuntimeError("unknown sequel window expression in from_lint")
    if "letproblem_tokens=document.token_indices_intersecting(lint.span);" not in b1:
        raise RuntimeError("unknown problem window expression in from_lint")
    chain = "lettokens=prequel_tokens.into_iter().chain(problem_tokens).chain(sequel_tokens).flat_map(|idx|document.get_token(idx))" in b1
    blank = blank_meta = False
    if ".map(|t|t.to_fat(document.get_source())).collect();" in b1:
        pass
    else:
        mm = re.search(r"\.map\(\|t\|\{letmutfat=t\.to_fat\(document\.get_source\(\)\);(.*?)fat\}\)\.collect\(\);", b1)
        if not mm:
            raise RuntimeError("unknown token mapping in from_lint")
        inner = mm.group(1)
        s_twin = "ifletTokenKind::Punctuation(Punctuation::Quote(quote))=&mutfat.kind{quote.twin_loc=None;}"
        s_meta = "ifletTokenKind::Word(metadata)=&mutfat.kind{*metadata=None;}"
        blank = s_twin in inner
        blank_meta = s_meta in inner
        if inner.replace(s_twin, "", 1).replace(s_meta, "", 1) != "":
            raise RuntimeError("unknown statement in the token mapping of from_lint: %r" % inner)
    built = one(re.search(r"Self\s*\{(.*?)\}", body[body.rfind("Self {") - 1:], re.S).group(1))
    ft_ds, ft_fields = struct(rd("harper-core/src/fat_token.rs"), "FatToken")
    q_ds, q_fields = struct(rd("harper-core/src/punctuation.rs"), "Quote")
    tk_raw = rd("harper-core/src/token_kind.rs")
    tk_variants = enum_variants(tk_raw, "TokenKind")
    tk_hash = bool(re.search(r"derive\([^)]*\bHash\b[^)]*\)\]\s*(?:#\[[^\]]*\]\s*)*pub enum TokenKind", tk_raw, re.S))
    n_ds, n_fields = struct(rd("harper-core/src/number.rs"), "Number")
    ig_ds, ig_fields = struct(rd("harper-core/src/ignored_lints/mod.rs"), "IgnoredLints")
    if len(ig_fields) != 1:
        raise RuntimeError("IgnoredLints no longer has exactly one field")
    strs = lambda xs: "[" + "; ".join('"%s"' % x for x in xs) + "]"
    b = lambda x: "true" if x else "false"
    out = ["(* GENERATED by tools/tables/lintcontext.py from /repo — do not edit. *)",
           "From Coq Require Import List String Bool NArith.", "Import ListNotations.", "Open Scope string_scope.", "",
           "(* struct LintContext: the fields, in the order derive(Hash) feeds them to the hasher *)",
           "Definition lc_fields : list string := %s." % strs(fields),
           "Definition lc_derives_hash : bool := %s." % b("Hash" in ds),
           "(* from_lint: every field is moved into the context under its own name *)",
           "Definition lc_built_from_fields : bool := %s." % b(built.rstrip(",") == ",".join(fields)),
           "(* window expressions: 0 = with_len(2).pulled_by(2) / with_len(2).pushed_by(2) (before 4550195); 1 = Span::new(start.saturating_sub(2), start) / Span::new_with_len(end, 2) *)",
           "Definition lc_prequel_variant : nat := %d." % prequel,
           "Definition lc_sequel_variant : nat := %d." % sequel,
           "Definition lc_chain_prequel_problem_sequel : bool := %s." % b(chain),
           "(* the closure applied to each fat token: quote.twin_loc = None / *metadata = None of a word *)",
           "Definition lc_blanks_twin_loc : bool := %s." % b(blank),
           "Definition lc_blanks_word_metadata : bool := %s." % b(blank_meta),
           "Definition fat_token_fields : list string := %s." % strs(ft_fields),
           "Definition fat_token_derives_hash : bool := %s." % b("Hash" in ft_ds),
           "Definition quote_fields : list string := %s." % strs(q_fields),
           "Definition quote_derives_hash : bool := %s." % b("Hash" in q_ds),
           "Definition number_fields : list string := %s." % strs(n_fields),
           "Definition number_derives_hash : bool := %s." % b("Hash" in n_ds),
           "Definition token_kind_variants : list string := %s." % strs(tk_variants),
           "Definition token_kind_derives_hash : bool := %s." % b(tk_hash),
           "(* IgnoredLints: its one serialised field, as code points *)",
           "Definition ignored_json_key : list N := [%s]%%N." % "; ".join(str(ord(c)) for c in ig_fields[0]),
           "Definition ignored_derives_serde : bool := %s." % b("Serialize" in ig_ds and "Deserialize" in ig_ds)]
    return "\n".join(out) + "\n"
