"""_c06dict — the curated dictionary, rebuilt from the SOURCES (helper of tools/tables/f24.py; not a table module).

A line-by-line port of what MutableDictionary::from_rune_files does with harper-core/dictionary.dict and
harper-core/affixes.json, restricted to what C06 needs — the canonical spellings Dictionary::words_iter lists:

  spell/rune/word_list.rs   parse_word_list     first line = count; blank lines and lines starting with `#` skipped;
                                               `entry # comment` -> entry.trim_end(); `word/attrs`
  spell/rune/matcher.rs     Matcher::parse      `[..]`, `[^..]`, `.`, literal — with its index arithmetic as written
                                               (close_idx is relative to the bracket but used as an absolute index:
                                               identical for a bracket at position 0, which is all the file has; any
                                               other shape RAISES here instead of guessing)
  spell/rune/attribute_list.rs  expand_marked_word / apply_replacement  (cross products, the `kind != Prefix` test,
                                               Property expansions, non-cross-product targets that do NOT replace an
                                               existing canonical spelling, the final insert that DOES)
  spell/word_map.rs         WordMap::insert     keyed by WordId = lower(normalised spelling): a later insert replaces
  spell/word_id.rs          WordId::from_word_chars   (hash = identity here; collisions are monitored by the harness)

The shapes of those functions are re-checked verbatim (raise on change).  The port is TIED to the implementation by
the correspondence case `D` of harness/src/bin/c06.rs: number of words and an FNV-1a digest of the sorted word list
must equal those of FstDictionary::curated().words_iter() in every run."""
import json, os, re

NORMALIZE = {0x2019: 0x27, 0x2018: 0x27, 0xFF07: 0x27}


def _read(repo, rel):
    src = open(os.path.join(repo, rel), encoding="utf-8").read()
    i = src.find("#[cfg(test)]")
    src = src if i < 0 else src[:i]
    return re.sub(r"//[^\n]*", "", src)


def _squash(s):
    return re.sub(r"\s+", "", s)


def _need(src, snippet, what):
    if _squash(snippet) not in _squash(src):
        raise ValueError("_c06dict: shape changed: %s — expected to find `%s`" % (what, snippet))


def check_shapes(repo):
    al = _read(repo, "harper-core/src/spell/rune/attribute_list.rs")
    _need(al, "for attr in &word.attributes { let Some(expansion) = self.affixes.get(attr) else { continue; };",
          "expand_marked_word: loop over the attributes, unknown flags skipped")
    _need(al, "for replacement in &expansion.replacements { if let Some(replaced) = Self::apply_replacement(replacement, &word.letters, expansion.kind)",
          "expand_marked_word: every replacement is tried on the word")
    _need(al, "if expansion.cross_product {", "expand_marked_word: cross product branch")
    _need(al, "if (attr_def.kind != Prefix) != (expansion.kind != Prefix) { opp_attr.push(*attr); }",
          "expand_marked_word: the attributes handed to the cross product")
    _need(al, "self.expand_marked_word( MarkedWord { letters: new_word.clone(), attributes: opp_attr.clone(), }, dest, );",
          "expand_marked_word: recursion on the derived word")
    _need(al, "if let Some(val) = dest.get_metadata_mut_chars(&key) { val.append(&value); } else { dest.insert(WordMapEntry { canonical_spelling: key, metadata: value, }); }",
          "expand_marked_word: a non-cross-product target does not replace an existing entry")
    _need(al, "if let Some(prev_val) = dest.get_with_chars(&word.letters) { dest.insert(WordMapEntry { metadata: gifted_metadata.or(&prev_val.metadata), canonical_spelling: word.letters, }); } else { dest.insert(WordMapEntry { metadata: gifted_metadata, canonical_spelling: word.letters, }); }",
          "expand_marked_word: the word itself is inserted last, replacing the spelling stored under its id")
    _need(al, "if replacement.condition.len() > letters.len() { return None; }", "apply_replacement: length guard")
    _need(al, "let target_span = if kind == Suffix { Span::new(letters.len() - replacement.condition.len(), letters.len()) } else { Span::new(0, replacement.condition.len()) };",
          "apply_replacement: where the condition is matched")
    _need(al, "if kind != Suffix { replaced_segment.reverse(); } else { remove.reverse(); } for c in &remove { let last = replaced_segment.last()?; if last == c { replaced_segment.pop(); } else { return None; } }",
          "apply_replacement: removal")
    _need(al, "let mut to_add = replacement.add.to_vec(); if kind != Suffix { to_add.reverse() } replaced_segment.extend(to_add); if kind != Suffix { replaced_segment.reverse(); }",
          "apply_replacement: addition")
    wl = _read(repo, "harper-core/src/spell/rune/word_list.rs")
    _need(wl, "if line.is_empty() || line.starts_with('#') { continue; }", "parse_word_list: skipped lines")
    _need(wl, "if let Some((entry_part, _comment_part)) = line.split_once('#') { entry = entry_part.trim_end(); } else { entry = line.trim_end(); }",
          "parse_word_list: trailing comments")
    _need(wl, "if let Some((word_part, attr_part)) = entry.split_once('/') { word = word_part; attr = Some(attr_part); } else { word = entry; attr = None; }",
          "parse_word_list: word/attributes")
    _need(wl, "letters: word.chars().collect(), attributes: attr.unwrap_or_default().chars().collect(),", "parse_word_list: MarkedWord")
    mt = _read(repo, "harper-core/src/spell/rune/matcher.rs")
    _need(mt, "let close_idx = source[idx..].find(']').ok_or(Error::UnmatchedBracket { index: idx })?; let bracket_contents = &source[idx + 1..close_idx];",
          "Matcher::parse: bracket contents")
    _need(mt, "'.' => operators.push(Operator::Any), _ => operators.push(Operator::Literal(c)),", "Matcher::parse: other operators")
    _need(mt, "Operator::Literal(b) => a == *b, Operator::MatchOne(b) => b.contains(&a), Operator::MatchNone(b) => !b.contains(&a), Operator::Any => true,",
          "Operator::matches")
    _need(mt, "if chars.len() != self.len() { return false; }", "Matcher::matches: length")
    wm = _read(repo, "harper-core/src/spell/word_map.rs")
    _need(wm, "pub fn insert(&mut self, entry: WordMapEntry) { let id = WordId::from_word_chars(&entry.canonical_spelling); self.inner.insert(id, entry); }",
          "WordMap::insert")
    md = _read(repo, "harper-core/src/spell/mutable_dictionary.rs")
    _need(md, 'MutableDictionary::from_rune_files( include_str!("../../dictionary.dict"), include_str!("../../affixes.json"), )',
          "the curated dictionary is built from dictionary.dict and affixes.json")
    _need(md, "let word_list = parse_word_list(word_list)?; let attr_list = AttributeList::parse(attr_list)?; let mut word_map = WordMap::default(); attr_list.expand_marked_words(word_list, &mut word_map);",
          "from_rune_files")
    cs = _read(repo, "harper-core/src/char_string.rs")
    for a, b in NORMALIZE.items():
        if not re.search(r"'\\u\{%04X\}'\s*=>\s*'\\''" % a, cs, re.I) and not re.search(r"'%s'\s*=>\s*'\\''" % chr(a), cs):
            raise ValueError("_c06dict: char_to_normalized no longer maps U+%04X to '" % a)
    if len(re.findall(r"=>\s*'\\''", re.search(r"fn char_to_normalized.*?\n\}", cs, re.S).group(0))) != len(NORMALIZE):
        raise ValueError("_c06dict: char_to_normalized has other rows than the three apostrophes")


def parse_matcher(source):
    if not source.isascii():
        raise ValueError("_c06dict: non-ASCII affix condition %r (byte/char indices differ)" % source)
    ops, i = [], 0
    while i < len(source):
        c = source[i]
        if c == "[":
            rel = source[i:].find("]")
            if rel < 0:
                raise ValueError("_c06dict: unmatched bracket in condition %r" % source)
            close_idx = rel  # as written in the Rust: relative index used as an absolute one
            if i != 0:
                raise ValueError("_c06dict: condition %r has a bracket that is not at position 0 — Matcher::parse would "
                                 "slice source[%d..%d]; port the behaviour before trusting the table" % (source, i + 1, close_idx))
            contents = source[i + 1:close_idx]
            if contents.startswith("^"):
                chars = contents[1:]
                i += len(chars) + 2
                ops.append(("none", chars))
            else:
                i += len(contents) + 1
                ops.append(("one", contents))
        elif c == ".":
            ops.append(("any", ""))
        else:
            ops.append(("lit", c))
        i += 1
    return ops


def _op_matches(op, a):
    k, cs = op
    return a == cs if k == "lit" else (a in cs) if k == "one" else (a not in cs) if k == "none" else True


def _matches(ops, chars):
    return len(chars) == len(ops) and all(_op_matches(o, c) for o, c in zip(ops, chars))


def word_id(w):
    return "".join(chr(NORMALIZE.get(ord(c), ord(c))).lower() for c in w)


def _apply(rep, letters, kind):
    ops, remove, add = rep
    if len(ops) > len(letters):
        return None
    seg = letters[len(letters) - len(ops):] if kind == "suffix" else letters[:len(ops)]
    if not _matches(ops, seg):
        return None
    if kind == "suffix":
        if remove and not letters.endswith(remove):
            return None
        return letters[:len(letters) - len(remove)] + add
    if remove and not letters.startswith(remove):
        return None
    return add + letters[len(remove):]


def expand(repo):
    """-> (sorted list of the canonical spellings words_iter lists, number of MarkedWords)"""
    check_shapes(repo)
    aff = json.load(open(os.path.join(repo, "harper-core", "affixes.json"), encoding="utf-8"))
    if set(aff.keys()) != {"affixes"}:
        raise ValueError("_c06dict: affixes.json: unknown top-level shape")
    affixes = {}
    for flag, e in aff["affixes"].items():
        if len(flag) != 1 or e.get("kind") not in ("prefix", "suffix", "property") or not isinstance(e.get("cross_product"), bool):
            raise ValueError("_c06dict: affixes.json: unknown shape of expansion %r" % flag)
        reps = []
        for r in e["replacements"]:
            if set(r.keys()) != {"remove", "add", "condition"}:
                raise ValueError("_c06dict: affixes.json: unknown replacement shape in %r" % flag)
            reps.append((parse_matcher(r["condition"]), r["remove"], r["add"]))
        affixes[flag] = (e["kind"], e["cross_product"], reps)
    lines = open(os.path.join(repo, "harper-core", "dictionary.dict"), encoding="utf-8").read().split("\n")
    # str::lines(): split at \n, a trailing \r is removed, no final empty line
    if lines and lines[-1] == "":
        lines.pop()
    lines = [l[:-1] if l.endswith("\r") else l for l in lines]
    if not lines or not re.fullmatch(r"[0-9]+", lines[0]):
        raise ValueError("_c06dict: dictionary.dict: first line is not the item count")
    marked = []
    for line in lines[1:]:
        if line == "" or line.startswith("#"):
            continue
        entry = line.split("#", 1)[0].rstrip() if "#" in line else line.rstrip()
        if "/" in entry:
            word, attr = entry.split("/", 1)
        else:
            word, attr = entry, ""
        marked.append((word, attr))
    if len(marked) < 10000:
        raise ValueError("_c06dict: dictionary.dict: unexpected shape (%d words)" % len(marked))
    dest = {}

    def expand_marked(letters, attrs):
        for a in attrs:
            exp = affixes.get(a)
            if exp is None:
                continue
            kind, cross, reps = exp
            new_words = []
            for rep in reps:
                # Property expansions have no replacements; apply_replacement treats every non-suffix like a prefix
                r = _apply(rep, letters, kind)
                if r is not None and r not in new_words:
                    new_words.append(r)
            if cross:
                opp = [b for b in attrs if b in affixes and ((affixes[b][0] != "prefix") != (kind != "prefix"))]
                for nw in new_words:
                    expand_marked(nw, opp)
            else:
                for nw in new_words:
                    dest.setdefault(word_id(nw), nw)
        dest[word_id(letters)] = letters

    for w, a in marked:
        expand_marked(w, a)
    return sorted(dest.values()), len(marked)


def fnv1a64(words):
    h = 0xCBF29CE484222325
    for w in words:
        for b in w.encode("utf-8") + b"\n":
            h = ((h ^ b) * 0x100000001B3) & 0xFFFFFFFFFFFFFFFF
    return h
