"""bodyshapes — pins the Rust text of the rule bodies that Model/C01Bodies.v follows by hand, reads the one table
they contain (ModalOf's list of modals) and takes the census of panic sites in the struct rules.

Emits Model/Tables_bodyshapes.v:

  modal_of_modals   : list text     the `let modals = [..]` array of ModalOf::default
  modal_of_pattern  : pat           the EitherPattern ModalOf::default builds (shape pinned: the constructor text with
                                    the array blanked must be the text this module knows)
  pinned_bodies     : list string   the functions whose whitespace-free, comment-free text equals the text recorded
                                    below (ModalOf::match_to_lint, ProperNounCapitalizationLinter::match_to_lint,
                                    PatternMap::lookup, ExactPhrase::from_document, RepeatedWords::lint,
                                    the iter_<thing>_indices macro arm)
  struct_rule_sites : list (string * string * string * string)
                                    (rule, file, kind, expression) — every `.unwrap()` / `.expect(` / `x[..]` index or
                                    slice / panicking macro / `Span::new(` in the non-test code of a file that has an
                                    `impl Linter for <Rule>` (the struct rules: not PatternLinter), in source order
  struct_rules_no_site : list string   struct rules without any such site
  struct_sites_proved  : list (string * string * string)   (rule, expression, theorem) sites covered by a Coq theorem

Phase 6: the functions Model/C01Struct.v follows (KNOWN_SHA / SOURCES_SHA, plus the macros create_fns_for! and
create_fns_on_doc!) are pinned by the sha256 of the same normalised text; their names are part of pinned_bodies.
PROVED_EXACT / PROVED_MULTI name struct-rule sites by their WHOLE census expression and must be found exactly once /
n times in the census taken on this run (BODYSHAPES_PRINT_SHA=1 prints the current hashes).

RAISES when one of the pinned functions no longer has the recorded text: the model must be re-read against the code."""
import os, re, hashlib


def strip_comments(src):
    src = re.sub(r"/\*.*?\*/", "", src, flags=re.S)
    return re.sub(r"//[^\n]*", "", src)


def fn_text(code, anchor, name):
    """whitespace-free text of `fn name` (signature + body), first occurrence after `anchor`"""
    a = code.find(anchor)
    if a < 0:
        raise RuntimeError("bodyshapes: anchor `%s` not found" % anchor)
    m = re.search(r"\bfn\s+%s\b" % re.escape(name), code[a:])
    if not m:
        raise RuntimeError("bodyshapes: fn %s not found after `%s`" % (name, anchor))
    i = a + m.start()
    j = code.index("{", i)
    depth, k = 0, j
    while True:
        c = code[k]
        if c == "{":
            depth += 1
        elif c == "}":
            depth -= 1
            if depth == 0:
                break
        k += 1
    return re.sub(r"\s+", "", code[i:k + 1])


# ------------------------------------------------------------------ the recorded texts (whitespace and comments removed)
KNOWN = {
    "ModalOf::default":
        'fndefault()->Self{letmodals=@MODALS@;letmutwords=WordSet::new(&modals);modals.iter().for_each(|word|{words.add(&format!("{}n\'t",word));});letmodal_of=Lrc::new(SequencePattern::default().then(words).then_whitespace().t_aco("of"),);letws_course=Lrc::new(SequencePattern::default().then_whitespace().t_aco("course"));letmodal_of_course=Lrc::new(SequencePattern::default().then(modal_of.clone()).then(ws_course.clone()),);letanyword_might_of=Lrc::new(SequencePattern::default().then_any_word().then_whitespace().t_aco("might").then_whitespace().t_aco("of"),);letanyword_might_of_course=Lrc::new(SequencePattern::default().then(anyword_might_of.clone()).then(ws_course.clone()),);Self{pattern:Box::new(EitherPattern::new(vec![Box::new(anyword_might_of_course),Box::new(modal_of_course),Box::new(anyword_might_of),Box::new(modal_of),])),}}',
    "ModalOf::match_to_lint":
        'fnmatch_to_lint(&self,matched_toks:&[Token],source_chars:&[char])->Option<Lint>{letwords:Vec<usize>=matched_toks.iter_word_indices().collect();letmodal_word=matchwords.len(){2=>0,3=>{letw3_text=matched_toks.last().unwrap().span.get_content(source_chars).iter().collect::<String>();ifw3_text.as_str()!="of"{returnNone;}letw1_kind=&matched_toks.first().unwrap().kind;ifw1_kind.is_adjective()||w1_kind.is_determiner(){returnNone;}1}_=>returnNone,};letmodal_index=words[modal_word];letof_index=words[modal_word+1];letspan_modal_of=matched_toks[modal_index..=of_index].span().unwrap();letmodal_have=format!("{}have",matched_toks[modal_index].span.get_content_string(source_chars)).chars().collect();Some(Lint{span:span_modal_of,lint_kind:LintKind::WordChoice,suggestions:vec![Suggestion::replace_with_match_case(modal_have,span_modal_of.get_content(source_chars),)],message:"Use`have`ratherthan`of`here.".to_string(),priority:126,})}',
    "ProperNounCapitalizationLinter::match_to_lint":
        'fnmatch_to_lint(&self,matched_tokens:&[Token],source:&[char])->Option<Lint>{letcanonical_case=self.pattern_map.lookup(matched_tokens,source).unwrap();letmutbroken=false;for(err_token,correct_token)inmatched_tokens.iter().zip(canonical_case.fat_tokens()){leterr_chars=err_token.span.get_content(source);iferr_chars!=correct_token.content{broken=true;break;}}if!broken{returnNone;}Some(Lint{span:matched_tokens.span()?,lint_kind:LintKind::Capitalization,suggestions:vec![Suggestion::ReplaceWith(canonical_case.get_source().to_vec(),)],message:self.description.to_string(),priority:31,})}',
    "ProperNounCapitalizationLinter::new":
        'fnnew(canonical_versions:implIntoIterator<Item=implAsRef<[char]>>,description:implToString,dictionary:D,)->Self{letdictionary=Arc::new(dictionary);letmutpattern_map=PatternMap::default();forcan_versincanonical_versions{letdoc=Document::new_from_vec(can_vers.as_ref().to_vec().into(),&PlainEnglish,&dictionary,);letpattern=ExactPhrase::from_document(&doc);pattern_map.insert(pattern,doc);}Self{pattern_map,dictionary:dictionary.clone(),description:description.to_string(),}}',
    "PatternMap::lookup":
        'fnlookup(&self,tokens:&[Token],source:&[char])->Option<&T>{forrowin&self.rows{letlen=row.key.matches(tokens,source);iflen!=0{returnSome(&row.element);}}None}',
    "ExactPhrase::from_document":
        'fnfrom_document(doc:&Document)->Self{letmutphrase=SequencePattern::default();fortokenindoc.fat_tokens(){matchtoken.kind{TokenKind::Word(_word_metadata)=>{phrase=phrase.then(AnyCapitalization::new(token.content.as_slice().into()));}TokenKind::Space(_)=>{phrase=phrase.then_whitespace();}TokenKind::Punctuation(p)=>{phrase=phrase.then(move|t:&Token,_source:&[char]|{t.kind.as_punctuation().cloned()==Some(p)})}TokenKind::ParagraphBreak=>{phrase=phrase.then_whitespace();}TokenKind::Number(n)=>{phrase=phrase.then(move|tok:&Token,_source:&[char]|tok.kind==TokenKind::Number(n))}_=>panic!("Felloutofexpecteddocumentformats."),}}Self{inner:phrase}}',
    "RepeatedWords::lint":
        'fnlint(&mutself,document:&Document)->Vec<Lint>{letmutlints=Vec::new();forchunkindocument.iter_chunks(){letmutiter=chunk.iter_word_indices().zip(chunk.iter_words()).peekable();whilelet(Some((idx_a,tok_a)),Some((idx_b,tok_b)))=(iter.next(),iter.peek()){letword_a=document.get_span_content(&tok_a.span);letword_b=document.get_span_content(&tok_b.span);if(tok_a.kind.is_preposition()||tok_a.kind.is_conjunction()||!tok_a.kind.is_likely_homograph()||self.is_special_case(word_a))&&word_a.to_lower()==word_b.to_lower(){letintervening_tokens=&chunk[idx_a+1..*idx_b];ifintervening_tokens.iter().any(|t|!t.kind.is_whitespace()){continue;}lints.push(Lint{span:Span::new(tok_a.span.start,tok_b.span.end),lint_kind:LintKind::Repetition,suggestions:vec![Suggestion::ReplaceWith(document.get_span_content(&tok_a.span).to_vec(),)],message:"Didyoumeantorepeatthisword?".to_string(),..Default::default()})}}}lints}',
    "iter_<thing>_indices":
        'fn[<iter_$thing_indices>](&self)->implIterator<Item=usize>+\'_{self.iter().enumerate().filter(|(_,t)|t.kind.[<is_$thing>]()).map(|(i,_)|i)}',
}

# phase 6: functions Model/C01Struct.v follows, pinned by the sha256 of the same normalised text (filled below)
KNOWN_SHA = {
    'AnA::lint': "667d0d9d8eb7732e2184c428dc0d8cd89295eba0c1279ac7c4725a32c708beeb",
    'CapitalizePersonalPronouns::lint': "0a8e8b69ba0b51e90a75977c321a433e414b712d20b082ca562b067e63f98661",
    'LinkingVerbs::lint': "c4890f812b452811535b65ff4a020248f439f460b50aaa7970fad2aaa30c3e92",
    'MergeWords::lint': "1fd4d7537837d0f2ba95b6c7dae8fdf8b07336e0b7ea5dbd0a644ed4a747fb89",
    'NoOxfordComma::lint': "3036aa44e3a6f3fb5f44dd33b1f83d40c3058061b9e142c838fdf79cf230a0a0",
    'NoOxfordComma::match_to_lint': "84381bb89a78853c9f76c221770af47080ad8d12654ccac3e70d439f769d1e43",
    'OxfordComma::lint': "f8ec06963df54bea1c0a2d4aa43a542a8fb9bca38e88c0e8231f9f15cede773b",
    'SentenceCapitalization::lint': "82172f294d8dfd54d796e93b3dba92db544c065a8e0b71e2461389ad177b1408",
    'Spaces::lint': "ce6d68d2b0625df37241cb07788262e89947d63d2d8becdfcc9921157d2b2b50",
    'TokenStringExt::iter_linking_verb_indices': "32abe7636a2beb35cb604815e3ed95c7d6932814603605a86949c9a63fee7d0e",
    'an_a::starts_with_vowel': "52465e5bfd1b4a02a5cb7ff3dc0b5f87dc37b96cd004b8f4744a765d953d958f",
    'create_fns_for!': "55c27f6a5e8b2fd4bcbfd2f849aa224a57568a70adb7f2861e5c3d6bf607705c",
    'AdjectiveOfA::lint': "d33ab3eb9ee1523b554c7a506bbdba9d6c6d568370b105ec4f7f70e8680ded56",
    'CommaFixes::lint': "996c7e654f16e9485614250ac1725d4f761551fe60b8081206d6a7f6c00a1602",
    'Document::get_token': "ca8959e9c3ac866d5c2c001ac72bce96940e686a70891e4abb9d8fc7883d5f58",
    'InflectedVerbAfterTo::lint': "222d534495f1ce8d354879ba7647806fb92659929a2284d468c5744935b7c8cf",
    'create_fns_on_doc!': "c7a4d4f07a60c8e300f9ee09e28812cd649041701c97f549c7aa3254959d7fa1",
    'SpellCheck::lint': "0f321438a6d6e7a76ff61cee69ebb2ef011b3c49a262947064c384a0489b2a72",
    'SpellCheck::new': "67522e9c7380a972d4e6c50b176498de314316db4a1d4460f79cd608806bd077",
    'SpelledNumbers::lint': "c83ae903ef22dc394645720780327b165425a9315b00c69182a921477b09a2c5",
    'spelled_numbers::spell_out_number': "ef4852117c3a90dbac54fcbf839e7a0a2efeb58a5481424cd9485c1e9c9138cf",
    'CurrencyPlacement::lint': "b649608a583080701b83a1f8124710c0b4c792c55e74f7d01ff1b0b177907142",
    'currency_placement::generate_lint_for_tokens': "5c24c67923dc189b432019245bb5a2805e74a409fea95f5a7aa779df6e1e0d30",
}

SOURCES_SHA = [
    # key, file, anchor, fn name
    ("AnA::lint", "harper-core/src/linting/an_a.rs", "impl Linter for AnA", "lint"),
    ("an_a::starts_with_vowel", "harper-core/src/linting/an_a.rs", "impl Linter for AnA", "starts_with_vowel"),
    ("LinkingVerbs::lint", "harper-core/src/linting/linking_verbs.rs", "impl Linter for LinkingVerbs", "lint"),
    ("TokenStringExt::iter_linking_verb_indices", "harper-core/src/token_string_ext.rs", "impl TokenStringExt for [Token]", "iter_linking_verb_indices"),
    ("NoOxfordComma::match_to_lint", "harper-core/src/linting/no_oxford_comma.rs", "impl NoOxfordComma", "match_to_lint"),
    ("NoOxfordComma::lint", "harper-core/src/linting/no_oxford_comma.rs", "impl Linter for NoOxfordComma", "lint"),
    ("OxfordComma::lint", "harper-core/src/linting/oxford_comma.rs", "impl Linter for OxfordComma", "lint"),
    ("Spaces::lint", "harper-core/src/linting/spaces.rs", "impl Linter for Spaces", "lint"),
    ("SentenceCapitalization::lint", "harper-core/src/linting/sentence_capitalization.rs", "Linter for SentenceCapitalization", "lint"),
    ("CapitalizePersonalPronouns::lint", "harper-core/src/linting/capitalize_personal_pronouns.rs", "impl Linter for CapitalizePersonalPronouns", "lint"),
    ("MergeWords::lint", "harper-core/src/linting/merge_words.rs", "Linter for MergeWords", "lint"),
    ("AdjectiveOfA::lint", "harper-core/src/linting/adjective_of_a.rs", "impl Linter for AdjectiveOfA", "lint"),
    ("InflectedVerbAfterTo::lint", "harper-core/src/linting/inflected_verb_after_to.rs", "Linter for InflectedVerbAfterTo", "lint"),
    ("CommaFixes::lint", "harper-core/src/linting/comma_fixes.rs", "impl Linter for CommaFixes", "lint"),
    ("Document::get_token", "harper-core/src/document.rs", "impl Document", "get_token"),
    ("SpellCheck::new", "harper-core/src/linting/spell_check.rs", "SpellCheck<T> {", "new"),
    ("SpellCheck::lint", "harper-core/src/linting/spell_check.rs", "Linter for SpellCheck", "lint"),
    ("SpelledNumbers::lint", "harper-core/src/linting/spelled_numbers.rs", "impl Linter for SpelledNumbers", "lint"),
    ("spelled_numbers::spell_out_number", "harper-core/src/linting/spelled_numbers.rs", "impl Linter for SpelledNumbers", "spell_out_number"),
    # phase 7 (Model/C01SpanOrder.v; the other five functions with a Span::new site are pinned above / in SOURCES)
    ("CurrencyPlacement::lint", "harper-core/src/linting/currency_placement.rs", "impl Linter for CurrencyPlacement", "lint"),
    ("currency_placement::generate_lint_for_tokens", "harper-core/src/linting/currency_placement.rs", "impl Linter for CurrencyPlacement", "generate_lint_for_tokens"),
]

SOURCES = [
    # key, file, anchor, fn name
    ("ModalOf::default", "harper-core/src/linting/modal_of.rs", "impl Default for ModalOf", "default"),
    ("ModalOf::match_to_lint", "harper-core/src/linting/modal_of.rs", "impl PatternLinter for ModalOf", "match_to_lint"),
    ("ProperNounCapitalizationLinter::match_to_lint", "harper-core/src/linting/proper_noun_capitalization_linters.rs", "PatternLinter for ProperNounCapitalizationLinter", "match_to_lint"),
    ("ProperNounCapitalizationLinter::new", "harper-core/src/linting/proper_noun_capitalization_linters.rs", "ProperNounCapitalizationLinter<D> {", "new"),
    ("PatternMap::lookup", "harper-core/src/patterns/pattern_map.rs", "impl<T> PatternMap<T>", "lookup"),
    ("ExactPhrase::from_document", "harper-core/src/patterns/exact_phrase.rs", "impl ExactPhrase", "from_document"),
    ("RepeatedWords::lint", "harper-core/src/linting/repeated_words.rs", "impl Linter for RepeatedWords", "lint"),
]

# struct-rule sites a Coq theorem covers: (rule, whitespace-free expression, theorem)
PROVED = [
    ("RepeatedWords", "chunk[idx_a+1..*idx_b]", "C01_repeated_words_slice_total"),
    ("LongSentences", "sentence[first..]", "C01_long_sentence_visible_slice"),
    ("LongSentences", "sentence[first..].span().unwrap()", "C01_long_sentence_span"),
]
# phase 6: (rule, the WHOLE site expression as the census prints it, theorem); each entry must hit exactly one site
PROVED_EXACT = [
    ("AnA", "chunk[first_idx..second_idx]", "C01_an_a_sites_total"),
    ("AnA", "chunk[first_idx+1..second_idx]", "C01_an_a_sites_total"),
    ("AnA", "&chunk[first_idx]", "C01_an_a_sites_total"),
    ("AnA", "&chunk[second_idx]", "C01_an_a_sites_total"),
    ("AnA", "word[0]", "C01_an_a_sites_total"),
    ("LinkingVerbs", "&chunk[idx]", "C01_linking_verbs_sites_total"),
    ("LinkingVerbs", "&chunk[0..idx]", "C01_linking_verbs_sites_total"),
    ("LinkingVerbs", "prev_word.kind.as_word().unwrap()", "C01_linking_verbs_sites_total"),
    ("NoOxfordComma", "&matched_toks[last_comma_index]", "C01_no_oxford_comma_total"),
    ("NoOxfordComma", "&sentence[tok_cursor..]", "C01_no_oxford_comma_total"),
    ("NoOxfordComma", "&sentence[tok_cursor..tok_cursor+match_len]", "C01_no_oxford_comma_total"),
    ("OxfordComma", "&sentence[tok_cursor..]", "C01_oxford_comma_loop_total"),
    ("OxfordComma", "&sentence[tok_cursor..tok_cursor+match_len]", "C01_oxford_comma_loop_total"),
    ("Spaces", "panic!", "C01_spaces_sites_total"),
    ("Spaces", "sentence[sentence.len()-2..sentence.len()-1]", "C01_spaces_sites_total"),
    ("Spaces", "sentence[sentence.len()-2..sentence.len()-1].span().unwrap()", "C01_spaces_sites_total"),
    ("SentenceCapitalization", "paragraph.iter_sentences().next().unwrap()", "C01_first_sentence_total"),
    ("CapitalizePersonalPronouns", "replacement[0]", "C01_small_index_sites_total"),
    ("MergeWords", "a_chars[0]", "C01_small_index_sites_total"),
    ("MergeWords", "b_chars[0]", "C01_small_index_sites_total"),
    ("AdjectiveOfA", "document.get_token(i).unwrap()", "C01_get_token_sites_total"),
    ("AdjectiveOfA", "space_1.unwrap()", "C01_get_token_sites_total"),
    ("AdjectiveOfA", "word_of.unwrap()", "C01_get_token_sites_total"),
    ("AdjectiveOfA", "space_2.unwrap()", "C01_get_token_sites_total"),
    ("AdjectiveOfA", "a_or_an.unwrap()", "C01_get_token_sites_total"),
    ("InflectedVerbAfterTo", "document.get_token(pi).unwrap()", "C01_get_token_sites_total"),
    ("CommaFixes", "document.get_token(ci).unwrap()", "C01_get_token_sites_total"),
    ("CommaFixes", "document.get_token(ci-2).unwrap()", "C01_get_token_sites_total"),
    ("CommaFixes", "document.get_token(ci-1).unwrap()", "C01_get_token_sites_total"),
    ("SpellCheck", "NonZero::new(10000).unwrap()", "C01_spell_sites_total"),
    ("SpellCheck", "word.kind.as_word().unwrap()", "C01_spell_sites_total"),
    ("SpellCheck", "panic!", "C01_spell_sites_total"),
    ("SpellCheck", "possibilities.last().unwrap()", "C01_spell_sites_total"),
    ("SpelledNumbers", "number_tok.kind.as_number().unwrap()", "C01_spell_sites_total"),
    ("SpelledNumbers", "spell_out_number(valueasu64).unwrap()", "C01_spell_sites_total"),
    ("SpelledNumbers", "spell_out_number(hundred/100).unwrap()", "C01_spell_sites_total"),
    ("SpelledNumbers", "spell_out_number(parent).unwrap()", "C01_spell_sites_total"),
    ("SpelledNumbers", "spell_out_number(child).unwrap()", "C01_spell_sites_total"),
    # phase 7: Span::new(a.span.start, b.span.end) over two tokens of one list, a before b (Model/C01SpanOrder.v)
    ("AdjectiveOfA", "Span::new(adjective.span.start,a_or_an.span.end)", "C01_span_new_sites_total"),
    ("CurrencyPlacement", "Span::new(a.span.start,b.span.end)", "C01_span_new_sites_total"),
    ("InflectedVerbAfterTo", "Span::new(prep.span.start,word.span.end)", "C01_span_new_sites_total"),
    ("RepeatedWords", "Span::new(tok_a.span.start,tok_b.span.end)", "C01_span_new_sites_total"),
]
# the same expression several times in one rule: (rule, expression, how often, theorem)
PROVED_MULTI = [
    ("InflectedVerbAfterTo", "&chars[..chars.len()-2]", 2, "C01_get_token_sites_total"),
    ("InflectedVerbAfterTo", "&chars[..chars.len()-1]", 2, "C01_get_token_sites_total"),
    ("CommaFixes", "toks.1.unwrap()", 4, "C01_get_token_sites_total"),
    ("CommaFixes", "Span::new(toks.1.unwrap().span.start,toks.2.span.end)", 3, "C01_span_new_sites_total"),
    ("MergeWords", "Span::new(a.span.start,b.span.end)", 2, "C01_span_new_sites_total"),
]


def coq_text(s):
    return "(ch [%s])" % "; ".join(str(ord(c)) for c in s)


def qs(s):
    return '"%s"' % s.replace('"', '""')


def balanced_back(code, end):
    """start of the postfix expression that ends just before position `end` (a `.` or `[`)"""
    k = end - 1
    while k >= 0:
        c = code[k]
        if c in ")]":
            depth, opener = 0, {")": "(", "]": "["}[c]
            while k >= 0:
                if code[k] == c:
                    depth += 1
                elif code[k] == opener:
                    depth -= 1
                    if depth == 0:
                        break
                k -= 1
            k -= 1
        elif c.isalnum() or c in "_.:?&*!" or (c == ">" and code[k - 1] == ":"):
            k -= 1
        elif c == ">" or c == "<":
            k -= 1
        else:
            break
    return k + 1


def sites_of(code):
    """panic sites of a comment-free source text, in order: (kind, expression)"""
    out = []
    code = re.sub(r"\s+\.(?=[a-zA-Z_])", ".", code)          # method chains broken over lines
    for m in re.finditer(r"\.(unwrap|expect)\s*\(", code):
        s = balanced_back(code, m.start())
        out.append((m.start(), m.group(1), re.sub(r"\s+", "", code[s:m.end()]) + (")" if m.group(1) == "unwrap" else "..)")))
    for m in re.finditer(r"\b(panic|unreachable|unimplemented|todo|assert|assert_eq|assert_ne)!\s*\(", code):
        out.append((m.start(), "macro", m.group(1) + "!"))
    for m in re.finditer(r"\bSpan::new\s*\(", code):
        depth, k = 0, m.end() - 1
        while True:
            if code[k] == "(":
                depth += 1
            elif code[k] == ")":
                depth -= 1
                if depth == 0:
                    break
            k += 1
        out.append((m.start(), "span_new", re.sub(r"\s+", "", code[m.start():k + 1])))
    # index / slice: identifier or `)`/`]` immediately followed by `[`, not an attribute, not a type / array literal
    for m in re.finditer(r"(?<=[\w\)\]])\[", code):
        line_start = code.rfind("\n", 0, m.start()) + 1
        if code[line_start:m.start()].lstrip().startswith("#"):
            continue
        s = balanced_back(code, m.start())
        head = code[s:m.start()]
        if not head or head in ("vec!", "&") or head.endswith("!") or re.fullmatch(r"[A-Z]\w*", head.split("::")[-1] or "X"):
            continue
        depth, k = 0, m.start()
        while True:
            if code[k] == "[":
                depth += 1
            elif code[k] == "]":
                depth -= 1
                if depth == 0:
                    break
            k += 1
        inner = code[m.start() + 1:k]
        if re.fullmatch(r"\s*[\w:<>&' ]*\s*(;\s*\w+)?\s*", inner) and re.search(r"[A-Z]", inner) and not re.search(r"\d|\.\.", inner):
            continue                                   # a type like Vec<[char; N]> / &[Token]
        out.append((m.start(), "index", re.sub(r"\s+", "", code[s:k + 1])))
    out.sort()
    return [(k, e) for _, k, e in out]


def generate(repo):
    texts = {}
    for key, rel, anchor, name in SOURCES:
        code = strip_comments(open(os.path.join(repo, rel), encoding="utf-8").read())
        cut = code.find("#[cfg(test)]")
        code = code if cut < 0 else code[:cut]
        texts[key] = fn_text(code, anchor, name)
    sha_texts = {}
    for key, rel, anchor, name in SOURCES_SHA:
        code = strip_comments(open(os.path.join(repo, rel), encoding="utf-8").read())
        cut = code.find("#[cfg(test)]")
        code = code if cut < 0 else code[:cut]
        sha_texts[key] = fn_text(code, anchor, name)
    tse = strip_comments(open(os.path.join(repo, "harper-core/src/token_string_ext.rs"), encoding="utf-8").read())
    mm_ = re.search(r"macro_rules! create_fns_for \{.*?\n\}\n", tse, flags=re.S)
    if not mm_:
        raise RuntimeError("bodyshapes: macro create_fns_for of token_string_ext.rs was not found")
    sha_texts["create_fns_for!"] = re.sub(r"\s+", "", mm_.group(0))
    docrs = strip_comments(open(os.path.join(repo, "harper-core/src/document.rs"), encoding="utf-8").read())
    mm_ = re.search(r"macro_rules! create_fns_on_doc \{.*?\n\}\n", docrs, flags=re.S)
    if not mm_:
        raise RuntimeError("bodyshapes: macro create_fns_on_doc of document.rs was not found")
    sha_texts["create_fns_on_doc!"] = re.sub(r"\s+", "", mm_.group(0))
    for thing in ("comma", "adjective", "preposition"):
        for mac, txt in (("create_fns_for", tse), ("create_fns_on_doc", docrs)):
            if "%s!(%s);" % (mac, thing) not in re.sub(r"\s+", "", txt):
                raise RuntimeError("bodyshapes: %s!(%s) is no longer instantiated" % (mac, thing))
    for thing in ("word", "comma", "space"):
        if "create_fns_for!(%s);" % thing not in re.sub(r"\s+", "", tse):
            raise RuntimeError("bodyshapes: token_string_ext.rs no longer instantiates create_fns_for!(%s)" % thing)
    if os.environ.get("BODYSHAPES_PRINT_SHA"):
        for key in sorted(sha_texts):
            print('    %r: "%s",' % (key, hashlib.sha256(sha_texts[key].encode()).hexdigest()))
    for key, want in KNOWN_SHA.items():
        got = hashlib.sha256(sha_texts[key].encode()).hexdigest()
        if got != want:
            raise RuntimeError("bodyshapes: %s no longer has the text Model/C01Struct.v was written after (sha256 %s, recorded %s):\n  now: %s"
                               % (key, got, want, sha_texts[key]))
    if sorted(KNOWN_SHA) != sorted(sha_texts):
        raise RuntimeError("bodyshapes: KNOWN_SHA and SOURCES_SHA disagree")
    m = re.search(r"fn \[<iter_ \$thing _indices>\]\(&self\) -> impl Iterator<Item = usize> \+ '_ \{.*?\n            \}", tse, flags=re.S)
    if not m:
        raise RuntimeError("bodyshapes: the iter_<thing>_indices macro arm of token_string_ext.rs was not found")
    texts["iter_<thing>_indices"] = re.sub(r"\s+", "", m.group(0))
    if "create_fns_for!(word);" not in re.sub(r"\s+", "", tse) and "create_fns_for!(word)" not in tse:
        raise RuntimeError("bodyshapes: token_string_ext.rs no longer instantiates create_fns_for!(word)")
    # ModalOf::default: blank the array, keep it as data
    d = texts["ModalOf::default"]
    mm = re.search(r'letmodals=(\[(?:"[a-z\']+",?)+\]);', d)
    if not mm:
        raise RuntimeError("bodyshapes: `let modals = [..]` of ModalOf::default not found")
    modals = re.findall(r'"([a-z\']+)"', mm.group(1))
    texts["ModalOf::default"] = d.replace(mm.group(1), "@MODALS@", 1)
    for key, want in KNOWN.items():
        if texts[key] != want:
            raise RuntimeError("bodyshapes: %s no longer has the text Model/C01Bodies.v was written after:\n  now:      %s\n  recorded: %s"
                               % (key, texts[key], want))
    words = modals + [w + "n't" for w in modals]
    ws = "PWordSet [%s]" % "; ".join(coq_text(w) for w in words)
    modal_of = "PSeq [%s; PWhitespace; PAnyCap %s]" % (ws, coq_text("of"))
    ws_course = "PSeq [PWhitespace; PAnyCap %s]" % coq_text("course")
    amo = "PSeq [PFlag F_WORD; PWhitespace; PAnyCap %s; PWhitespace; PAnyCap %s]" % (coq_text("might"), coq_text("of"))
    pattern = "PEither [PSeq [%s; %s]; PSeq [%s; %s]; %s; %s]" % (amo, ws_course, modal_of, ws_course, amo, modal_of)

    # ---- census of the struct rules
    root = os.path.join(repo, "harper-core/src/linting")
    sites, no_site, rules = [], [], []
    for d_, dirs, files in sorted(os.walk(root)):
        dirs.sort()
        for fn in sorted(files):
            if not fn.endswith(".rs") or fn in ("pattern_linter.rs", "merge_linters.rs", "lint_group.rs", "mod.rs"):
                continue
            rel = os.path.relpath(os.path.join(d_, fn), repo)
            code = strip_comments(open(os.path.join(d_, fn), encoding="utf-8").read())
            cut = code.find("#[cfg(test)]")
            code = code if cut < 0 else code[:cut]
            ms = re.findall(r"\bimpl(?:<[^>]*>)?\s+Linter\s+for\s+(\w+)", code)
            if not ms:
                continue
            for rule in ms:
                rules.append(rule)
                ss = sites_of(code)
                if not ss:
                    no_site.append(rule)
                for kind, expr in ss:
                    sites.append((rule, rel, kind, expr))
    if len(rules) < 15:
        raise RuntimeError("bodyshapes: only %d struct rules (`impl Linter for`) found" % len(rules))
    proved = []
    for rule, expr, thm in PROVED:
        hit = [s for s in sites if s[0] == rule and expr in s[3]]
        if not hit:
            raise RuntimeError("bodyshapes: the proved site `%s` of %s is gone — re-read the rule" % (expr, rule))
        proved.append((rule, expr, thm))
    for rule, expr, n, thm in PROVED_MULTI:
        hit = [s for s in sites if s[0] == rule and s[3] == expr]
        if len(hit) != n:
            raise RuntimeError("bodyshapes: the proved site `%s` of %s is found %d times, not %d — re-read the rule" % (expr, rule, len(hit), n))
        proved += [(rule, expr, thm)] * n
    for rule, expr, thm in PROVED_EXACT:
        hit = [s for s in sites if s[0] == rule and s[3] == expr]
        if len(hit) != 1:
            raise RuntimeError("bodyshapes: the proved site `%s` of %s is found %d times — re-read the rule" % (expr, rule, len(hit)))
        proved.append((rule, expr, thm))

    out = ["(* GENERATED by tools/tables/bodyshapes.py from /repo — do not edit. *)",
           "Require Import Base Overlap TokenSeq Pattern.",
           "From Coq Require Import List String.", "Import ListNotations.", "Open Scope string_scope.", "",
           "(* ModalOf::default: `let modals = [..]` and the pattern built from it (constructor text pinned) *)",
           "Definition modal_of_modals : list text := [%s]." % "; ".join(coq_text(w) for w in modals),
           "Definition modal_of_pattern : pat :=\n  %s." % pattern, "",
           "(* functions whose text (comments and whitespace removed) equals the text Model/C01Bodies.v was written after *)",
           "Definition pinned_bodies : list string := [%s]." % "; ".join(qs(k) for k in sorted(list(KNOWN) + list(KNOWN_SHA))), "",
           "(* struct rules (`impl Linter for`, not PatternLinter): every unwrap / expect / index / slice / panicking macro /",
           "   Span::new of the non-test code of their files: (rule, file, kind, expression) *)",
           "Definition struct_rule_sites : list (string * string * string * string) := ["]
    out.append(";\n".join("  (%s, %s, %s, %s)" % (qs(r), qs(f), qs(k), qs(e)) for r, f, k, e in sites))
    out += ["].", "", "Definition struct_rules_all : list string := [%s]." % "; ".join(qs(r) for r in rules),
            "Definition struct_rules_no_site : list string := [%s]." % "; ".join(qs(r) for r in no_site), "",
            "(* sites covered by a theorem of Properties/C01.v: (rule, expression, theorem) *)",
            "Definition struct_sites_proved : list (string * string * string) := ["]
    out.append(";\n".join("  (%s, %s, %s)" % (qs(r), qs(e), qs(t)) for r, e, t in proved))
    out += ["]."]
    return "\n".join(out) + "\n"
