(* c04 driver.  stdin: one case per line; fields separated by '|', integers by ' ', and inside a
   recorded inner-parser entry  "<content cps> ; <s e k  s e k ...>".
     E cps                  encode                          -> bytes
     D bytes                decode                          -> cps
     I b | cps              char index of byte offset b     -> P | k
     T cps | s e ...        TreeSitterMasker::create_mask   -> P | s e ...
     C cps | s e ...        CommentMasker::create_mask      -> P | s e ...
     W cps | s e ...        merge_whitespace_sep            -> P | s e ...
     M cps | s e ... | entry | entry ...   parsers::Mask::parse (collect + parse)  -> P | s e k ...
     X cps                  without_initiators              -> P | s e
     N cps | entry ...      Unit::parse                     -> P | s e k ...
     J cps | entry ...      JsDoc::parse (line loop, inline tags, block tag) -> P | s e k ...
     U cps | tree | entry ...  Typst::parse over the abstract tree (prefix form, see Model/C04Typst.v) -> P | s e k ...
     V cps | entry          JavaDoc::parse (entry = HtmlParser on the content without initiators) -> P | s e k ...
     G cps | entry ...      Go::parse                       -> P | s e k ...
     L w | cps              LHS masker (w=1 text_only, 0 code_only) -> P | s e ...
     O cps | b ...          OffsetCursor::push_to chain     -> P | char byte
     K pre a b | cps        def_token! after push_to(pre)   -> P | s e
     Y cps | start ...      Markdown traversed_bytes/chars  -> P | tb tc ...
     Z ilt | cps | code arg start end ... | entry ...   Markdown::parse loop + final pop -> P | s e k ...
                            (start, end = the event's byte range; arg = chars().count() of its text)
     Q cps                  ignore condition (generated markers) -> 0 | 1
     H cps                  git-commit cut (first line starting with '#') -> P | n *)
let nats s = List.map nat_of_int (ints_of_line s)
let rec pairs = function a :: b :: t -> (nat_of_int a, nat_of_int b) :: pairs t | _ -> []
let rec triples = function
  | a :: b :: c :: t -> ((nat_of_int a, nat_of_int b), n_of_int c) :: triples t
  | _ -> []
let show_pairs l =
  String.concat " " (List.map (fun (a, b) -> string_of_int (int_of_nat a) ^ " " ^ string_of_int (int_of_nat b)) l)
let show_triples l =
  String.concat " "
    (List.map (fun ((a, b), k) ->
         string_of_int (int_of_nat a) ^ " " ^ string_of_int (int_of_nat b) ^ " " ^ string_of_int (int_of_n k)) l)
let out_pairs = function None -> print_endline "P" | Some l -> print_endline (String.trim ("O " ^ show_pairs l))
let out_triples = function None -> print_endline "P" | Some l -> print_endline (String.trim ("O " ^ show_triples l))
let entry (s : string) =
  match String.split_on_char ';' s with
  | [c; t] -> (text_of_line (String.trim c), triples (ints_of_line (String.trim t)))
  | [c] -> (text_of_line (String.trim c), [])
  | _ -> ([], [])
let tag_of = function
  | 0 -> TParagraph | 1 -> TLink | 2 -> THeading | 3 -> TItem | 4 -> TTableCell | 5 -> TEmphasis
  | 6 -> TStrong | 7 -> TStrikethrough | 8 -> TCodeBlock | 9 -> TList | _ -> TOtherTag
let rec events = function
  | code :: arg :: start :: stop :: t ->
      let ev = match code with
        | 0 -> EStart (tag_of arg) | 1 -> EEndBreaking | 2 -> EEndOther | 3 -> ESoftBreak | 4 -> EHardBreak
        | 5 -> ECodeLike (nat_of_int arg) | 6 -> EText (nat_of_int arg, nat_of_int stop) | 7 -> EHtml (nat_of_int arg)
        | _ -> EOtherEvent in
      (ev, nat_of_int start) :: events t
  | _ -> []
let () =
  iter_lines (fun l ->
    if String.length l = 0 then print_newline () else
    let body = String.sub l 1 (String.length l - 1) in
    let f = split_bar body in
    match l.[0], f with
    | 'E', [t] -> print_endline (String.trim ("O " ^ line_of_text (run_encode (text_of_line t))))
    | 'D', [t] -> print_endline (String.trim ("O " ^ line_of_text (run_decode (text_of_line t))))
    | 'I', [b; t] ->
        (match run_char_index (text_of_line t) (nat_of_int (int_of_string (String.trim b))) with
         | None -> print_endline "P" | Some k -> print_endline (string_of_int (int_of_nat k)))
    | 'T', [t; s] -> out_pairs (run_ts_mask (text_of_line t) (pairs (ints_of_line s)))
    | 'C', [t; s] -> out_pairs (run_comment_mask_gen (text_of_line t) (pairs (ints_of_line s)))
    | 'W', [t; s] -> out_pairs (run_merge_ws (text_of_line t) (pairs (ints_of_line s)))
    | 'M', t :: s :: entries ->
        out_triples (run_mask_parse (List.map entry entries) (text_of_line t) (pairs (ints_of_line s)))
    | 'X', [t] ->
        (match run_without_initiators (text_of_line t) with
         | None -> print_endline "P"
         | Some (a, b) -> print_endline (string_of_int (int_of_nat a) ^ " " ^ string_of_int (int_of_nat b)))
    | 'N', t :: entries -> out_triples (run_unit_parse (List.map entry entries) (text_of_line t))
    | 'J', t :: entries -> out_triples (run_jsdoc_full (List.map entry entries) (text_of_line t))
    | 'U', t :: tree :: entries -> out_triples (run_typst (List.map entry entries) (text_of_line t) (text_of_line tree))
    | 'V', t :: entries -> out_triples (run_javadoc (List.map entry entries) (text_of_line t))
    | 'G', t :: entries -> out_triples (run_go_parse (List.map entry entries) (text_of_line t))
    | 'L', [w; t] -> out_pairs (run_lhs_mask (String.trim w = "1") (text_of_line t))
    | 'O', [t; bs] ->
        (match run_push_to_all (text_of_line t) (nats bs) with
         | None -> print_endline "P"
         | Some (c, b) -> print_endline (string_of_int (int_of_nat c) ^ " " ^ string_of_int (int_of_nat b)))
    | 'K', [h; t] ->
        (match ints_of_line h with
         | [pre; a; b] ->
             (match run_def_token (text_of_line t) (nat_of_int pre) (nat_of_int a) (nat_of_int b) with
              | None -> print_endline "P"
              | Some (s, e) -> print_endline (string_of_int (int_of_nat s) ^ " " ^ string_of_int (int_of_nat e)))
         | _ -> print_endline "?")
    | 'Y', [t; st] -> out_pairs (run_md_cursors (text_of_line t) (nats st))
    | 'Z', ilt :: t :: evs :: entries ->
        out_triples (run_md_core (List.map entry entries) (String.trim ilt = "1") (text_of_line t)
                       (events (ints_of_line evs)))
    | 'Q', [t] -> print_endline (if run_ignore_gen (text_of_line t) then "1" else "0")
    | 'H', [t] ->
        (match run_git_cut (text_of_line t) with
         | None -> print_endline "P" | Some n -> print_endline (string_of_int (int_of_nat n)))
    | _ -> print_endline "?")
