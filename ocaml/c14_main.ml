(* c14 driver.  stdin: one case per line; fields separated by '|', ';', ',' (three levels).
     lint := s e kind prio ; message cps ; sugg , sugg ...        sugg := R cps | I cps | D
     doc  := source cps ; tok , tok ...                            tok  := s e KIND
     KIND := W - | W code | P code | Q - | Q n | D | N code (-|code) radix precision | S n | L n | E | U | H | X | B | R
   C lint | doc              -> token indices of LintContext::from_lint (prequel ++ problem ++ sequel), or P (panic)
   X lint | doc | lint | doc -> S (same context: lint 2 is ignored after ignoring lint 1), D, or P (panic)
   J cps                     -> import of that JSON text into an empty list: sorted hashes, or E
   H docs # lints # ops      -> history on one IgnoredLints: i l d (ignore), q l d (is_ignored -> y/n),
        r d l.. (remove_ignored -> [k-..]), x / f (export + import into the same / a fresh list), c (clear), n (size),
        s (switch to the second list), m (export the OTHER list, import that text into the current one)
   E b b ...                 -> the serde_json text of a list with these hashes IN THIS ORDER (each hash in binary, most
        significant bit first): byte for byte what serde_json::to_string printed (the order is the set's iteration order)
   Q cps | s e               -> Document::new_plain_english(text) by the MODELLED parser (module E = gen/c14e_model.ml:
        C02's lexer + passes, Model/C14Edit.v), then LintContext::from_lint for a lint with span [s,e):
        "idx idx ... ; s,e,TAG,c.c.c ..." (context token indices; per context token span, blanked kind, content), or P
   U name lo-hi lo-hi ...    -> load the range table of a Unicode predicate (ws | num | alpha | ling) dumped from Rust's
        char methods (as the c02 driver does); Q uses the four tables once all are loaded (any text), the ASCII
        restriction C14Edit.ascii_uni before; answers "U name <number of ranges>"
   B lint | doc              -> (phase 5) the BYTE STREAM derive(Hash) of LintContext::from_lint(lint, doc) feeds to the hasher
        (Model/C14Bytes.v: enc_ctx) and SipHash-1-3 with keys (0,0) over it (stored_hash), as
        "wf <stream in hex> <hash: 8 bytes little endian in hex>"; kinds as above with P code = index of the Punctuation
        variant (64 + index of the currency for Currency), N value = b<bits of the hashed u64>, suffix = variant index *)
let split c s = List.map String.trim (String.split_on_char c s)
let ints s = ints_of_line s
let nats s = List.map nat_of_int (ints s)

let parse_sugg s =
  let s = String.trim s in
  if s = "" then None else
  let body = String.sub s 1 (String.length s - 1) in
  match s.[0] with
  | 'R' -> Some (ReplaceWith (text_of_line body))
  | 'I' -> Some (InsertAfter (text_of_line body))
  | _ -> Some Remove

let parse_lint s =
  match split ';' s with
  | hd :: msg :: rest ->
      (match ints hd with
       | [a; b; k; p] ->
           let suggs = match rest with [] -> [] | x :: _ -> List.filter_map parse_sugg (split ',' x) in
           { il_span = { sstart = nat_of_int a; send = nat_of_int b }; il_kind = n_of_int k; il_sugg = suggs;
             il_msg = text_of_line msg; il_prio = n_of_int p }
       | _ -> failwith "lint head")
  | _ -> failwith "lint"

(* a number in binary ("b1011", most significant bit first: values beyond OCaml's 63-bit ints) or in decimal *)
let n_of_bits0 (w : string) : n =
  let p = ref None in
  String.iter (fun ch ->
    let b = (ch = '1') in
    p := (match !p with
          | None -> if b then Some XH else None
          | Some q -> Some (if b then XI q else XO q))) w;
  match !p with None -> N0 | Some q -> Npos q
let num w = if String.length w > 0 && w.[0] = 'b' then n_of_bits0 (String.sub w 1 (String.length w - 1)) else n_of_int (int_of_string w)
let opt_code w = if w = "-" then None else Some (num w)
let parse_kind ws =
  match ws with
  | ["W"; m] -> KWord (opt_code m)
  | ["P"; p] -> KPunct (n_of_int (int_of_string p))
  | ["Q"; "-"] -> KQuote None
  | ["Q"; n] -> KQuote (Some (nat_of_int (int_of_string n)))
  | ["D"] -> KDecade
  | ["N"; v; s; r; p] -> KNumber (num v, opt_code s, n_of_int (int_of_string r), nat_of_int (int_of_string p))
  | ["S"; n] -> KSpace (nat_of_int (int_of_string n))
  | ["L"; n] -> KNewline (nat_of_int (int_of_string n))
  | ["E"] -> KEmail | ["U"] -> KUrl | ["H"] -> KHostname | ["X"] -> KUnlintable
  | ["B"] -> KParagraphBreak | ["R"] -> KRegexish
  | _ -> failwith "kind"

let parse_tok s =
  match List.filter (fun w -> w <> "") (String.split_on_char ' ' s) with
  | a :: b :: k -> { tspan = { sstart = nat_of_int (int_of_string a); send = nat_of_int (int_of_string b) }; tkd = parse_kind k }
  | _ -> failwith "tok"

let parse_doc s =
  match split ';' s with
  | [src] -> { dsrc = text_of_line src; dtoks = [] }
  | src :: toks :: _ ->
      { dsrc = text_of_line src; dtoks = List.map parse_tok (List.filter (fun t -> t <> "") (split ',' toks)) }
  | _ -> failwith "doc"

let string_of_text t = String.concat "" (List.map (fun c -> String.make 1 (Char.chr (int_of_n c))) t)
(* decimal rendering by the MODEL's own printer (hashes exceed OCaml's 63-bit ints) *)
let dec n = string_of_text (render_num n)
let cmp_dec a b = if String.length a <> String.length b then compare (String.length a) (String.length b) else compare a b

(* hash := an injective numbering of the contexts met (first-come), realised with the model's ctx_eqb *)
let table : (ctx * n) list ref = ref []
let next = ref 0
let hash (c : ctx) : n =
  match List.find_opt (fun (c', _) -> ctx_eqb c c') !table with
  | Some (_, h) -> h
  | None -> let h = n_of_int (!next + 1000) in incr next; table := (c, h) :: !table; h

(* ---- module E (the second extracted model) has its own copies of nat / N ---- *)
let rec enat_of_int (n : int) : E.nat = if n <= 0 then E.O else E.S (enat_of_int (n - 1))
let int_of_enat (n : E.nat) : int = let rec go acc = function E.O -> acc | E.S m -> go (acc + 1) m in go 0 n
let rec epos_of_int (n : int) : E.positive =
  if n <= 1 then E.XH else if n land 1 = 0 then E.XO (epos_of_int (n lsr 1)) else E.XI (epos_of_int (n lsr 1))
let en_of_int (n : int) : E.n = if n <= 0 then E.N0 else E.Npos (epos_of_int n)
let rec int_of_epos = function E.XH -> 1 | E.XO p -> 2 * int_of_epos p | E.XI p -> 2 * int_of_epos p + 1
let int_of_en = function E.N0 -> 0 | E.Npos p -> int_of_epos p
let hex_of_en (x : E.n) : string =
  match x with
  | E.N0 -> "0"
  | E.Npos p ->
      let rec bits p acc = match p with E.XH -> 1 :: acc | E.XO q -> bits q (0 :: acc) | E.XI q -> bits q (1 :: acc) in
      let bs = bits p [] in
      let pad = (4 - List.length bs mod 4) mod 4 in
      let bs = List.init pad (fun _ -> 0) @ bs in
      let b = Buffer.create 16 in
      let rec go = function
        | a :: c :: d :: e :: r -> Buffer.add_char b "0123456789abcdef".[a * 8 + c * 4 + d * 2 + e]; go r
        | _ -> () in
      go bs; Buffer.contents b
let etag (k : E.tkind) : string =
  match k with
  | E.KWord None -> "W" | E.KWord (Some _) -> "W!"
  | E.KPunct c -> "P:" ^ hex_of_en c
  | E.KQuote None -> "Q" | E.KQuote (Some _) -> "Q!"
  | E.KDecade -> "D"
  | E.KNumber (_, _, r, p) -> Printf.sprintf "N:%d:%d" (int_of_en r) (int_of_enat p)
  | E.KSpace n -> "S:" ^ string_of_int (int_of_enat n)
  | E.KNewline n -> "L:" ^ string_of_int (int_of_enat n)
  | E.KEmail -> "E" | E.KUrl -> "U" | E.KHostname -> "H" | E.KUnlintable -> "X"
  | E.KParagraphBreak -> "B" | E.KRegexish -> "R"
(* a hash in binary, most significant bit first *)
let n_of_bits (w : string) : n =
  let p = ref None in
  String.iter (fun ch ->
    let b = (ch = '1') in
    p := (match !p with
          | None -> if b then Some XH else None
          | Some q -> Some (if b then XI q else XO q))) w;
  match !p with None -> N0 | Some q -> Npos q

let hex_of_bytes (bs : n list) : string =
  let b = Buffer.create (2 * List.length bs + 1) in
  List.iter (fun x -> Buffer.add_string b (Printf.sprintf "%02x" (int_of_n x))) bs;
  if Buffer.length b = 0 then "-" else Buffer.contents b

(* Unicode range tables for stream Q (same representation as ocaml/c02_main.ml) *)
let tables : (string, (int * int) array) Hashtbl.t = Hashtbl.create 8
let in_table name =
  fun (c : E.n) ->
    match Hashtbl.find_opt tables name with
    | None -> false
    | Some a ->
        let x = int_of_en c in
        let lo = ref 0 and hi = ref (Array.length a - 1) and found = ref false in
        while not !found && !lo <= !hi do
          let mid = (!lo + !hi) / 2 in
          let (l, h) = a.(mid) in
          if x < l then hi := mid - 1 else if x > h then lo := mid + 1 else found := true
        done;
        !found
let tables_loaded () = List.for_all (fun n -> Hashtbl.mem tables n) ["ws"; "num"; "alpha"; "ling"]
let uni_now () : E.uni =
  if tables_loaded () then
    { E.u_whitespace = in_table "ws"; E.u_numeric = in_table "num"; E.u_alphabetic = in_table "alpha"; E.u_lingual = in_table "ling" }
  else E.ascii_uni

let () =
  iter_lines (fun l ->
    if String.length l = 0 then print_newline () else
    let ctxv = context in
    let body = String.sub l 1 (String.length l - 1) in
    try
      match l.[0] with
      | 'C' ->
          (match split '|' body with
           | [li; d] ->
               (match run_context_indices (parse_lint li) (parse_doc d) with
                | Some idx -> print_endline (String.concat " " (List.map (fun k -> string_of_int (int_of_nat k)) idx))
                | None -> print_endline "P")
           | _ -> print_endline "?")
      | 'B' ->
          (match split '|' body with
           | [li; d] ->
               (match run_bytes (parse_lint li) (parse_doc d) with
                | Some ((wf, bs), h) -> Printf.printf "%s %s %s\n" (if wf then "wf" else "ILL-FORMED") (hex_of_bytes bs) (hex_of_bytes h)
                | None -> print_endline "P")
           | _ -> print_endline "?")
      | 'X' ->
          (match split '|' body with
           | [l1; d1; l2; d2] ->
               (match run_same_context (parse_lint l1) (parse_doc d1) (parse_lint l2) (parse_doc d2) with
                | Some true -> print_endline "S"
                | Some false -> print_endline "D"
                | None -> print_endline "P")
           | _ -> print_endline "?")
      | 'J' ->
          (match run_import (text_of_line body) with
           | None -> print_endline "E"
           | Some s -> print_endline (String.concat " " (List.sort cmp_dec (List.map dec s))))
      | 'E' ->
          let ws = List.filter (fun w -> w <> "") (String.split_on_char ' ' body) in
          print_endline (string_of_text (run_export (List.map n_of_bits ws)))
      | 'U' ->
          (match List.filter (fun w -> w <> "") (String.split_on_char ' ' body) with
           | name :: ranges ->
               let a = Array.of_list (List.map (fun r ->
                   match String.split_on_char '-' r with
                   | [x; y] -> (int_of_string x, int_of_string y)
                   | _ -> failwith "bad range") ranges) in
               Hashtbl.replace tables name a;
               Printf.printf "U %s %d\n" name (Array.length a)
           | [] -> print_endline "?")
      | 'Q' ->
          (match split '|' body with
           | [txt; se] ->
               (match ints se with
                | [a; b] ->
                    let src = List.map en_of_int (ints txt) in
                    (match E.run_plain_uni (uni_now ()) src (enat_of_int a) (enat_of_int b) with
                     | None -> print_endline "P"
                     | Some (idx, toks) ->
                         let i = String.concat " " (List.map (fun k -> string_of_int (int_of_enat k)) idx) in
                         let t = String.concat " " (List.map (fun (sp, (k, c)) ->
                             Printf.sprintf "%d,%d,%s,%s" (int_of_enat sp.E.sstart) (int_of_enat sp.E.send) (etag k)
                               (String.concat "." (List.map (fun x -> string_of_int (int_of_en x)) c))) toks) in
                         print_endline (String.trim (i ^ " ; " ^ t)))
                | _ -> print_endline "?")
           | _ -> print_endline "?")
      | 'H' ->
          (* H doc | lint ; lint ; ... # ops      — lints separated by '#'-free syntax: see below *)
          (match String.split_on_char '#' body with
           | [docs_part; lints_part; ops_part] ->
               let docs = Array.of_list (List.map parse_doc (List.filter (fun s -> s <> "") (split '|' docs_part))) in
               let lints = Array.of_list (List.map parse_lint (List.filter (fun s -> s <> "") (split '|' lints_part))) in
               table := []; next := 0;
               let st = ref [] in
               let other = ref [] in
               let out = Buffer.create 64 in
               let panic = ref false in
               List.iter (fun op ->
                 if not !panic then
                 match List.filter (fun w -> w <> "") (String.split_on_char ' ' op) with
                 | ["i"; li; di] ->
                     (match ignore_lint ctxv hash !st lints.(int_of_string li) docs.(int_of_string di) with
                      | Ok s -> st := s | Panic _ -> panic := true)
                 | ["q"; li; di] ->
                     (match is_ignored ctxv hash !st lints.(int_of_string li) docs.(int_of_string di) with
                      | Ok b -> Buffer.add_string out (if b then "y" else "n") | Panic _ -> panic := true)
                 | "r" :: di :: lis ->
                     let ls = List.map (fun w -> lints.(int_of_string w)) lis in
                     (match remove_ignored ctxv hash !st ls docs.(int_of_string di) with
                      | Ok kept ->
                          (* print which positions survive *)
                          let rec go ls kept = match ls, kept with
                            | [], _ -> ()
                            | x :: ls', k :: kept' when x == k -> Buffer.add_string out "k"; go ls' kept'
                            | _ :: ls', _ -> Buffer.add_string out "-"; go ls' kept in
                          Buffer.add_string out "["; go ls kept; Buffer.add_string out "]"
                      | Panic _ -> panic := true)
                 | ["x"] ->          (* export, import into the same list *)
                     (match run_import (run_export !st) with
                      | Some s -> st := ig_append !st s | None -> Buffer.add_string out "E")
                 | ["f"] ->          (* export, import into a fresh list *)
                     (match run_import (run_export !st) with
                      | Some s -> st := ig_append [] s | None -> Buffer.add_string out "E")
                 | ["s"] -> let t = !st in st := !other; other := t
                 | ["m"] ->          (* export the other list, import into the current one *)
                     (match run_import (run_export !other) with
                      | Some s -> st := ig_append !st s | None -> Buffer.add_string out "E")
                 | ["c"] -> st := []
                 | ["n"] -> Buffer.add_string out (string_of_int (List.length !st))
                 | [] -> ()
                 | _ -> Buffer.add_string out "?") (split ',' ops_part);
               print_endline (if !panic then "P" else Buffer.contents out)
           | _ -> print_endline "?")
      | _ -> print_endline "?"
    with Failure m -> print_endline ("? " ^ m))
