#!/bin/sh
# build.sh [name...] — build model drivers listed in drivers.txt (all when no name given)
cd "$(dirname "$0")"; mkdir -p build
rc=0
while IFS=: read -r name files; do
  [ -z "$name" ] && continue
  if [ $# -gt 0 ]; then case " $* " in *" $name "*) ;; *) continue;; esac; fi
  src=build/$name.ml
  ok=1; for f in $files; do [ -f "$f" ] || { echo "missing $f" >&2; ok=0; }; done
  [ $ok = 1 ] || { rc=1; continue; }
  cat $files > $src.new
  if [ -x build/$name ] && cmp -s $src.new $src; then rm $src.new; continue; fi
  mv $src.new $src
  ocamlfind ocamlopt -w -a -O3 -unboxed-types 2>/dev/null -o build/$name $src || ocamlfind ocamlopt -w -a -o build/$name $src || { rm -f build/$name; rc=1; }
done < drivers.txt
exit $rc
