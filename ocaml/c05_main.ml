(* c05 driver.  stdin: one operation of a history per line; the linter state persists between lines.
     N                       -> a freshly built linter (empty caches);                          prints "ok"
     C <cfgid> <hashid>      -> self.config = cfg (hashid = identity of the calls made on the hasher); "ok"
     L|src cps|struct lints before SpellCheck|on:word;word;...|struct lints after SpellCheck|chunk;chunk;...
        struct lints / lints : "s e payload" triples
        on     : 1/0 = SpellCheck enabled;  word : "s e payload" = span of a word SpellCheck rejects and the identity
                 of the lint an uncached SpellCheck builds for it (the model's `suggest`; "?" = never observed)
        chunk  : "-" (a token slice without tokens)  or
                 "keyid thid:rel lints or ?:keyids evicted before this lookup:s e kind s e kind ..."
                 (the chunk's tokens: absolute span and kind identity; thid = identity of the calls the token
                 hash makes on the hasher).  Hull, chunk characters and relative token spans are computed by the
                 MODEL (drv_doc_of / rel_toks), as LintGroup::lint computes them.
                             -> LintGroup::lint; prints "s e payload ...|HM..|hm.." (emitted lints, hit/miss per chunk
                                and per word)
     E keyid ...             -> the LRU dropped these entries;                                   "ok"
   `pattern_rel` (the uncached per-chunk result) is the table the L lines carry: the implementation's own
   observations; `tok_hash` maps a relative token sequence to the identity of its hasher input (thid). *)
let table : (string, clint list) Hashtbl.t = Hashtbl.create 4096       (* chars|rel toks|cfg -> uncached result *)
let thash : (string, int) Hashtbl.t = Hashtbl.create 4096              (* rel toks -> thid *)
let hash_of_cfg : (int, int) Hashtbl.t = Hashtbl.create 64
let keys : (int, (n list * n) * n) Hashtbl.t = Hashtbl.create 4096     (* keyid -> ((chars, cfg hash), token hash) *)
let spell_tbl : (string, int) Hashtbl.t = Hashtbl.create 256           (* word -> payload; per linter (dictionary, dialect) *)
exception Unknown_triple
let str_text (t : n list) = String.concat " " (List.map (fun c -> string_of_int (int_of_n c)) t)
let str_toks (ts : n tok list) =
  String.concat " " (List.map (fun (k, sp) -> Printf.sprintf "%d %d %d" (int_of_nat sp.sstart) (int_of_nat sp.send) (int_of_n k)) ts)
let triple_key chars rt c = str_text chars ^ "|" ^ str_toks rt ^ "|" ^ string_of_int c
let suggest w =
  match Hashtbl.find_opt spell_tbl (str_text w) with
  | Some p -> [[n_of_int p]]
  | None -> raise Unknown_triple
let pattern_rel chars t c =
  match Hashtbl.find_opt table (triple_key chars t (int_of_n c)) with
  | Some v -> v
  | None -> raise Unknown_triple
let tok_hash t =
  match Hashtbl.find_opt thash (str_toks t) with
  | Some h -> n_of_int h
  | None -> raise Unknown_triple
let cfg_hash c = n_of_int (try Hashtbl.find hash_of_cfg (int_of_n c) with Not_found -> 0)
let rec triples = function
  | a :: b :: c :: t -> { cl_span = { sstart = nat_of_int a; send = nat_of_int b }; cl_body = n_of_int c } :: triples t
  | _ -> []
let rec tokens = function
  | a :: b :: k :: t -> (n_of_int k, { sstart = nat_of_int a; send = nat_of_int b }) :: tokens t
  | [] -> []
  | _ -> failwith "bad tokens"
let show_lints ls =
  String.concat " " (List.map (fun l -> Printf.sprintf "%d %d %d" (int_of_nat l.cl_span.sstart) (int_of_nat l.cl_span.send) (int_of_n l.cl_body)) ls)
let st_code = ref (fresh (n_of_int 0))
let keep_code ev k = not (List.exists (fun id -> match Hashtbl.find_opt keys id with Some key -> code_key_eqb k key | None -> false) ev)
let () =
  iter_lines (fun l ->
    if String.length l = 0 then print_newline () else
    match l.[0] with
    | 'N' -> st_code := fresh (n_of_int 0); Hashtbl.reset spell_tbl; print_endline "ok"
    | 'C' ->
        (match ints_of_line (String.sub l 1 (String.length l - 1)) with
         | [c; h] ->
             Hashtbl.replace hash_of_cfg c h;
             st_code := run_set_cfg !st_code (n_of_int c);
             print_endline "ok"
         | _ -> print_endline "?")
    | 'E' ->
        let ev = ints_of_line (String.sub l 1 (String.length l - 1)) in
        st_code := run_evict !st_code (keep_code ev) (fun _ -> true);
        print_endline "ok"
    | 'L' ->
        (match String.split_on_char '|' l with
         | [_; src; pre; words; post; chunks] ->
             let src = text_of_line src in
             let spell_on, words = match String.split_on_char ':' words with
               | [on; ws] -> (String.trim on = "1", ws)
               | _ -> (false, "") in
             let slice a b = List.filteri (fun i _ -> i >= a && i < b) src in
             let miss = List.filter_map (fun wd ->
                 match String.split_on_char ' ' (String.trim wd) with
                 | [a; b; p] ->
                     let a = int_of_string a and b = int_of_string b in
                     let chars = slice a b in
                     if p <> "?" then Hashtbl.replace spell_tbl (str_text chars) (int_of_string p);
                     Some ({ sstart = nat_of_int a; send = nat_of_int b }, chars)
                 | _ -> None) (String.split_on_char ';' words) in
             let cfg = int_of_n (!st_code).st_cfg in
             let h = cfg_hash (n_of_int cfg) in
             (try
               (* (tokens, keyid, thid, known, evicted-before) per token slice of iter_chunks() *)
               let parsed = List.filter_map (fun c ->
                   let c = String.trim c in
                   if c = "" then None else if c = "-" then Some ([], 0, 0, "?", []) else
                   match String.split_on_char ':' c with
                   | [hd; known; ev; toks] ->
                       (match ints_of_line hd with
                        | [kid; thid] -> Some (tokens (ints_of_line toks), kid, thid, String.trim known, ints_of_line ev)
                        | _ -> failwith "bad chunk head")
                   | _ -> failwith "bad chunk") (String.split_on_char ';' chunks) in
               match drv_doc_of src (List.map (fun (ts, _, _, _, _) -> ts) parsed) miss with
               | Panic _ -> print_endline "P"
               | Ok d ->
                   (* register, per chunk with a span: token hash identity, key identity, the observed uncached result *)
                   let evs = List.map2 (fun oc (_, kid, thid, known, ev) ->
                       (match oc with
                        | None -> ()
                        | Some ch ->
                            (match rel_toks ch.c_start ch.c_toks with
                             | Ok rt ->
                                 Hashtbl.replace thash (str_toks rt) thid;
                                 Hashtbl.replace keys kid ((ch.c_chars, h), n_of_int thid);
                                 if known <> "?" then Hashtbl.replace table (triple_key ch.c_chars rt cfg) (triples (ints_of_line known))
                             | Panic _ -> ()));
                       keep_code ev) d.d_chunks parsed in
                   (match run_lint_code cfg_hash tok_hash pattern_rel (triples (ints_of_line pre)) (triples (ints_of_line post)) spell_on suggest !st_code d evs [] with
                    | Ok ((st, out), (hits, whits)) ->
                        st_code := st;
                        print_endline (show_lints out ^ "|" ^ String.concat "" (List.map (fun b -> if b then "H" else "M") hits)
                                       ^ "|" ^ String.concat "" (List.map (fun b -> if b then "h" else "m") whits))
                    | Panic _ -> print_endline "P")
             with Unknown_triple -> print_endline "UNKNOWN (the model misses where the implementation never computed an uncached result)"
                | Failure m -> print_endline m
                | Invalid_argument m -> print_endline m)
         | _ -> print_endline "?")
    | _ -> print_endline "?")
