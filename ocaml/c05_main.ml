(* c05 driver.  stdin: one operation of a history per line; the linter state persists between lines.
     N                       -> a freshly built linter (empty caches);                          prints "ok"
     C <cfgid> <hashid>      -> self.config = cfg (hashid = identity of the bytes fed to the hasher); "ok"
     L|src cps|struct lints before SpellCheck|on:word;word;...|struct lints after SpellCheck|chunk;chunk;...
        struct lints / lints : "s e payload" triples
        on     : 1/0 = SpellCheck enabled;  word : "s e payload" = span of a word SpellCheck rejects and the identity
                 of the lint an uncached SpellCheck builds for it (the model's `suggest`; "?" = never observed)
        chunk  : "-" (no span)  or  "hs he tokid keyid:rel lints or ?:keyids evicted before this lookup"
                             -> LintGroup::lint; prints "s e payload ...|HM..|hm.." (emitted lints, hit/miss per chunk
                                and per word)
     E keyid ...             -> the LRU dropped these entries;                                   "ok"
   `pattern_rel` (the uncached per-chunk result) is the table the L lines carry: the implementation's own
   observations.  argv[1] = "fixed" (or C05_KEY=fixed in the environment, which the harness honours too) runs the model with
   the key of fixes/F11.diff instead of the code's key — used to validate that patch on a scratch tree. *)
let fixed = (Array.length Sys.argv > 1 && Sys.argv.(1) = "fixed") || Sys.getenv_opt "C05_KEY" = Some "fixed"
let table : (int list * int * int, clint list) Hashtbl.t = Hashtbl.create 4096
let hash_of_cfg : (int, int) Hashtbl.t = Hashtbl.create 64
let keys : (int, n list * n * n) Hashtbl.t = Hashtbl.create 4096      (* keyid -> (chars, cfg hash, tokid) *)
let spell_tbl : (int list, int) Hashtbl.t = Hashtbl.create 256      (* word -> payload; per linter (dictionary, dialect) *)
exception Unknown_triple
let suggest w =
  match Hashtbl.find_opt spell_tbl (List.map int_of_n w) with
  | Some p -> [[n_of_int p]]
  | None -> raise Unknown_triple
let pattern_rel chars t c =
  match Hashtbl.find_opt table (List.map int_of_n chars, int_of_n t, int_of_n c) with
  | Some v -> v
  | None -> raise Unknown_triple
let cfg_hash c = n_of_int (try Hashtbl.find hash_of_cfg (int_of_n c) with Not_found -> 0)
let rec triples = function
  | a :: b :: c :: t -> { cl_span = { sstart = nat_of_int a; send = nat_of_int b }; cl_body = n_of_int c } :: triples t
  | _ -> []
let show_lints ls =
  String.concat " " (List.map (fun l -> Printf.sprintf "%d %d %d" (int_of_nat l.cl_span.sstart) (int_of_nat l.cl_span.send) (int_of_n l.cl_body)) ls)
let st_code = ref (fresh (n_of_int 0))
let st_fixed = ref (fresh (n_of_int 0))
let keep_code ev k = not (List.exists (fun id -> match Hashtbl.find_opt keys id with Some (c, h, _) -> code_key_eqb k (c, h) | None -> false) ev)
let keep_fixed ev k = not (List.exists (fun id -> match Hashtbl.find_opt keys id with Some (c, h, t) -> fixed_key_eqb k ((c, h), t) | None -> false) ev)
let () =
  iter_lines (fun l ->
    if String.length l = 0 then print_newline () else
    match l.[0] with
    | 'N' -> st_code := fresh (n_of_int 0); st_fixed := fresh (n_of_int 0); Hashtbl.reset spell_tbl; print_endline "ok"
    | 'C' ->
        (match ints_of_line (String.sub l 1 (String.length l - 1)) with
         | [c; h] ->
             Hashtbl.replace hash_of_cfg c h;
             st_code := run_set_cfg !st_code (n_of_int c); st_fixed := run_set_cfg !st_fixed (n_of_int c);
             print_endline "ok"
         | _ -> print_endline "?")
    | 'E' ->
        let ev = ints_of_line (String.sub l 1 (String.length l - 1)) in
        st_code := run_evict !st_code (keep_code ev) (fun _ -> true);
        st_fixed := run_evict !st_fixed (keep_fixed ev) (fun _ -> true);
        print_endline "ok"
    | 'L' ->
        (match String.split_on_char '|' l with
         | [_; src; pre; words; post; chunks] ->
             let src = text_of_line src in
             let spell_on, words = match String.split_on_char ':' words with
               | [on; ws] -> (String.trim on = "1", ws)
               | _ -> (false, "") in
             let slice a b = List.filteri (fun i _ -> i >= a && i < b) src in
             let miss = List.filter_map (fun wd ->
                 match String.split_on_char ' ' (String.trim wd) with
                 | [a; b; p] ->
                     let a = int_of_string a and b = int_of_string b in
                     let chars = slice a b in
                     if p <> "?" then Hashtbl.replace spell_tbl (List.map int_of_n chars) (int_of_string p);
                     Some ({ sstart = nat_of_int a; send = nat_of_int b }, chars)
                 | _ -> None) (String.split_on_char ';' words) in
             let cfg = int_of_n (!st_code).st_cfg in
             let h = cfg_hash (n_of_int cfg) in
             let parsed = List.filter_map (fun c ->
                 let c = String.trim c in
                 if c = "" then None else if c = "-" then Some (None, 0, []) else
                 match String.split_on_char ':' c with
                 | [hd; known; ev] ->
                     (match ints_of_line hd with
                      | [hs; he; tok; kid] -> Some (Some ({ sstart = nat_of_int hs; send = nat_of_int he }, known), tok, kid :: ints_of_line ev)
                      | _ -> failwith "bad chunk head")
                 | _ -> failwith "bad chunk") (String.split_on_char ';' chunks) in
             (try
               let chs = List.map (fun (hull, tok, kid_ev) ->
                   match hull with
                   | None -> (None, [])
                   | Some (sp, known) ->
                       (match chunk_of src (Some sp) (n_of_int tok) with
                        | Ok (Some ch) ->
                            let kid = List.hd kid_ev in
                            Hashtbl.replace keys kid (ch.c_chars, h, n_of_int tok);
                            if String.trim known <> "?" then
                              Hashtbl.replace table (List.map int_of_n ch.c_chars, tok, cfg) (triples (ints_of_line known));
                            (Some ch, List.tl kid_ev)
                        | _ -> failwith "P")) parsed in
               let d = { d_chunks = List.map fst chs; d_miss = miss; d_rest = N0 } in
               let finish out (hits, whits) =
                 print_endline (show_lints out ^ "|" ^ String.concat "" (List.map (fun b -> if b then "H" else "M") hits)
                                ^ "|" ^ String.concat "" (List.map (fun b -> if b then "h" else "m") whits)) in
               if fixed then begin
                 let evs = List.map (fun (_, ev) -> keep_fixed ev) chs in
                 match run_lint_fixed cfg_hash pattern_rel (triples (ints_of_line pre)) (triples (ints_of_line post)) spell_on suggest !st_fixed d evs [] with
                 | Ok ((st, out), hits) -> st_fixed := st; finish out hits
                 | Panic _ -> print_endline "P"
               end else begin
                 let evs = List.map (fun (_, ev) -> keep_code ev) chs in
                 match run_lint_code cfg_hash pattern_rel (triples (ints_of_line pre)) (triples (ints_of_line post)) spell_on suggest !st_code d evs [] with
                 | Ok ((st, out), hits) -> st_code := st; finish out hits
                 | Panic _ -> print_endline "P"
               end
             with Unknown_triple -> print_endline "UNKNOWN (the model misses where the implementation never computed an uncached result)"
                | Failure m -> print_endline m)
         | _ -> print_endline "?")
    | _ -> print_endline "?")
