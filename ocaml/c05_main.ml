(* c05 driver.  stdin: one operation of a history per line; the linter state persists between lines.
     N                       -> a freshly built linter (empty caches);                          prints "ok"
     C <cfgid> <hashid>      -> self.config = cfg (hashid = identity of the calls made on the hasher); "ok"
     L|src cps|struct lints before SpellCheck|on:word;word;...|struct lints after SpellCheck|chunk;chunk;...
        struct lints / lints : "s e payload" triples
        on     : 1/0 = SpellCheck enabled;  word : "s e payload" = span of a word SpellCheck rejects and the identity
                 of the lint an uncached SpellCheck builds for it (the model's `suggest`; "?" = never observed)
        chunk  : "-" (a token slice without tokens)  or
                 "keyid thid:rel lints or ?:keyids evicted before this lookup:s e kind s e kind ..."
                 (the chunk's tokens: absolute span and kind identity; thid = identity of the calls the token
                 hash makes on the hasher).  Hull, chunk characters and relative token spans are computed by the
                 MODEL (drv_doc_of / rel_toks), as LintGroup::lint computes them.
                             -> LintGroup::lint; prints "s e payload ...|HM..|hm.." (emitted lints, hit/miss per chunk
                                and per word)
     E keyid ...             -> the LRU dropped these entries;                                   "ok"
   `pattern_rel` (the uncached per-chunk result) is the table the L lines carry: the implementation's own
   observations; `tok_hash` maps a relative token sequence to the identity of its hasher input (thid). *)
(* ---- the entry points (Model/C05Entry.v): harper_wasm::Linter (w) / harper-ls DocumentState (s) ----
     X|cfg                     -> the curated configuration (cfg: "key bytes=1|0|-" entries separated by ';');          "ok"
     K cfgid hashid|cfg        -> names an EFFECTIVE configuration the real fill_with_curated produced;               "ok"
     P w|s pid vid             -> what the integration sees of the lint payload pid (wasm: kind, suggestions, message;
                                  harper-ls: message);                                                                 "ok"
     EN w dictid               -> Linter::new: stored configuration = curated cleared;           prints the MODEL's stored cfg
     EN s dictid|cfg           -> DocumentState with LintGroup::new_curated(..).with_lint_config(cfg);     "      "
     EC|cfg                    -> set_lint_config_from_json: clear + merge_from;                           "      "
     ED dictid                 -> synchronize_lint_dict: empty caches, old configuration merged onto the cleared curated one
     ER dictid|cfg             -> harper-ls rebuild: empty caches, with_lint_config(cfg);                  "      "
     EI hid / EK               -> ignore_lint (context hash hid) / clear_ignored_lints;                              "ok"
     EL w|s|src|pre|words|post|chunks|ctxs  -> Linter::lint / generate_diagnostics.  As L, but: SpellCheck's enabled-ness
                                  and the configuration are the MODEL's (fill_with_curated of its stored configuration);
                                  words: "s e pid"; ctxs: "s e pid hid" = context hash of each lint LintGroup::lint can return;
                                  prints "s e vid ..." (wasm)  or  "s e vid ...|HM..|hm.." (harper-ls) *)
let table : (string, clint list) Hashtbl.t = Hashtbl.create 4096       (* chars|rel toks|cfg -> uncached result *)
let thash : (string, int) Hashtbl.t = Hashtbl.create 4096              (* rel toks -> thid *)
let hash_of_cfg : (int, int) Hashtbl.t = Hashtbl.create 64
let keys : (int, (n list * n) * n) Hashtbl.t = Hashtbl.create 4096     (* keyid -> ((chars, cfg hash), token hash) *)
let spell_tbl : (string, int) Hashtbl.t = Hashtbl.create 256           (* word -> payload; per linter (dictionary, dialect) *)
exception Unknown_triple
let str_text (t : n list) = String.concat " " (List.map (fun c -> string_of_int (int_of_n c)) t)
let str_toks (ts : n tok list) =
  String.concat " " (List.map (fun (k, sp) -> Printf.sprintf "%d %d %d" (int_of_nat sp.sstart) (int_of_nat sp.send) (int_of_n k)) ts)
let triple_key chars rt c = str_text chars ^ "|" ^ str_toks rt ^ "|" ^ string_of_int c
let suggest w =
  match Hashtbl.find_opt spell_tbl (str_text w) with
  | Some p -> [[n_of_int p]]
  | None -> raise Unknown_triple
let pattern_rel chars t c =
  match Hashtbl.find_opt table (triple_key chars t (int_of_n c)) with
  | Some v -> v
  | None -> raise Unknown_triple
let tok_hash t =
  match Hashtbl.find_opt thash (str_toks t) with
  | Some h -> n_of_int h
  | None -> raise Unknown_triple
let cfg_hash c = n_of_int (try Hashtbl.find hash_of_cfg (int_of_n c) with Not_found -> 0)
let rec triples = function
  | a :: b :: c :: t -> { cl_span = { sstart = nat_of_int a; send = nat_of_int b }; cl_body = n_of_int c } :: triples t
  | _ -> []
let rec tokens = function
  | a :: b :: k :: t -> (n_of_int k, { sstart = nat_of_int a; send = nat_of_int b }) :: tokens t
  | [] -> []
  | _ -> failwith "bad tokens"
let show_lints ls =
  String.concat " " (List.map (fun l -> Printf.sprintf "%d %d %d" (int_of_nat l.cl_span.sstart) (int_of_nat l.cl_span.send) (int_of_n l.cl_body)) ls)
let st_code = ref (fresh (n_of_int 0))
let keep_code ev k = not (List.exists (fun id -> match Hashtbl.find_opt keys id with Some key -> code_key_eqb k key | None -> false) ev)
(* ---- SpellCheck over the concrete LRU (Model/C05Lru.v) ---- *)
let lru_cap = ref 10000
let lru_st : (n list * n list list) list ref = ref []
let lru_spell : (string, int) Hashtbl.t = Hashtbl.create 4096
(* ---- entry points ---- *)
let curated : lgconfig ref = ref []
let est : drv_estate ref = ref (drv_new (n_of_int 0) [])
let cfg_reg : (string, int * int) Hashtbl.t = Hashtbl.create 64          (* rendered effective cfg -> (cfgid, hashid) *)
let vis_tbl : (string, int) Hashtbl.t = Hashtbl.create 4096              (* "w|s pid" -> vid *)
let espell : (string, int) Hashtbl.t = Hashtbl.create 1024               (* "dict|word" -> payload *)
let ectx : (string, int) Hashtbl.t = Hashtbl.create 256                  (* "s e pid" -> context hash id (per lint step) *)
exception Unknown_cfg of string
let parse_cfg (s : string) : lgconfig =
  List.filter_map (fun e ->
      let e = String.trim e in
      if e = "" then None else
      match String.index_opt e '=' with
      | None -> None
      | Some i ->
          let k = text_of_line (String.sub e 0 i) in
          let v = match String.trim (String.sub e (i + 1) (String.length e - i - 1)) with "1" -> Some true | "0" -> Some false | _ -> None in
          Some (k, v)) (String.split_on_char ';' s)
let render_cfg (c : lgconfig) : string =
  String.concat ";" (List.map (fun (k, v) -> line_of_text k ^ "=" ^ (match v with Some true -> "1" | Some false -> "0" | None -> "-")) c)
let reg_of (c : lgconfig) = let r = render_cfg c in match Hashtbl.find_opt cfg_reg r with Some x -> x | None -> raise (Unknown_cfg r)
let after_bar l = match String.index_opt l '|' with Some i -> String.sub l (i + 1) (String.length l - i - 1) | None -> ""
let before_bar l = match String.index_opt l '|' with Some i -> String.sub l 0 i | None -> l
let entry_line (l : string) : unit =
  let tag = String.sub l 0 2 in
  let rest = String.sub l 2 (String.length l - 2) in
  match tag with
  | "EN" ->
      (match String.split_on_char ' ' (String.trim (before_bar rest)) with
       | ["w"; d] -> est := drv_new (n_of_int (int_of_string d)) (List.map (fun (k, _) -> (k, None)) !curated)
       | ["s"; d] -> est := drv_new (n_of_int (int_of_string d)) (parse_cfg (after_bar rest))
       | _ -> ());
      print_endline (render_cfg (drv_stored !est))
  | "EC" -> est := drv_wasm_set_cfg !est (parse_cfg (after_bar rest)); print_endline (render_cfg (drv_stored !est))
  | "ED" -> est := drv_wasm_sync !curated !est (n_of_int (int_of_string (String.trim rest))); print_endline (render_cfg (drv_stored !est))
  | "ER" -> est := drv_ls_rebuild !est (n_of_int (int_of_string (String.trim (before_bar rest)))) (parse_cfg (after_bar rest));
            print_endline (render_cfg (drv_stored !est))
  | "EI" -> est := drv_ignore !est (n_of_int (int_of_string (String.trim rest))); print_endline "ok"
  | "EK" -> est := drv_clear_ignored !est; print_endline "ok"
  | "EL" ->
      (match String.split_on_char '|' l with
       | [hd; src; pre; words; post; chunks; ctxs] ->
           let e = String.trim (String.sub hd 2 (String.length hd - 2)) in
           let ent = if e = "w" then Wasm else Ls in
           let src = text_of_line src in
           let dict = int_of_n (!est).e_dict in
           let slice a b = List.filteri (fun i _ -> i >= a && i < b) src in
           (try
             let eff = drv_effective !curated !est in
             let (cfgid, hashid) = reg_of eff in
             let miss = List.filter_map (fun wd ->
                 match String.split_on_char ' ' (String.trim wd) with
                 | [a; b; p] ->
                     let a = int_of_string a and b = int_of_string b in
                     let chars = slice a b in
                     Hashtbl.replace espell (string_of_int dict ^ "|" ^ str_text chars) (int_of_string p);
                     Some ({ sstart = nat_of_int a; send = nat_of_int b }, chars)
                 | _ -> None) (String.split_on_char ';' words) in
             Hashtbl.reset ectx;
             List.iter (fun c -> match ints_of_line c with
                 | [a; b; p; h] -> Hashtbl.replace ectx (Printf.sprintf "%d %d %d" a b p) h
                 | _ -> ()) (String.split_on_char ';' ctxs);
             let parsed = List.filter_map (fun c ->
                 let c = String.trim c in
                 if c = "" then None else if c = "-" then Some ([], 0, 0, "?", []) else
                 match String.split_on_char ':' c with
                 | [hd; known; ev; toks] ->
                     (match ints_of_line hd with
                      | [kid; thid] -> Some (tokens (ints_of_line toks), kid, thid, String.trim known, ints_of_line ev)
                      | _ -> failwith "bad chunk head")
                 | _ -> failwith "bad chunk") (String.split_on_char ';' chunks) in
             let ekey chars rt c = e ^ string_of_int dict ^ "|" ^ triple_key chars rt c in
             match drv_doc_of src (List.map (fun (ts, _, _, _, _) -> ts) parsed) miss with
             | Panic _ -> print_endline "P"
             | Ok d ->
                 let evs = List.map2 (fun oc (_, kid, thid, known, ev) ->
                     (match oc with
                      | None -> ()
                      | Some ch ->
                          (match rel_toks ch.c_start ch.c_toks with
                           | Ok rt ->
                               Hashtbl.replace thash (str_toks rt) thid;
                               Hashtbl.replace keys kid ((ch.c_chars, n_of_int hashid), n_of_int thid);
                               if known <> "?" then Hashtbl.replace table (ekey ch.c_chars rt cfgid) (triples (ints_of_line known))
                           | Panic _ -> ()));
                     keep_code ev) d.d_chunks parsed in
                 let e_cfg_hash c = n_of_int (snd (reg_of c)) in
                 let e_pattern_rel dc chars t c =
                   match Hashtbl.find_opt table (e ^ string_of_int (int_of_n dc) ^ "|" ^ triple_key chars t (fst (reg_of c))) with
                   | Some v -> v
                   | None -> raise Unknown_triple in
                 let e_suggest dc w =
                   match Hashtbl.find_opt espell (string_of_int (int_of_n dc) ^ "|" ^ str_text w) with
                   | Some p -> [[n_of_int p]]
                   | None -> raise Unknown_triple in
                 let e_ctx l =
                   match Hashtbl.find_opt ectx (Printf.sprintf "%d %d %d" (int_of_nat l.cl_span.sstart) (int_of_nat l.cl_span.send) (int_of_n l.cl_body)) with
                   | Some h -> n_of_int h
                   | None -> raise Unknown_triple in
                 (match drv_entry_lint ent !curated e_cfg_hash tok_hash e_pattern_rel (triples (ints_of_line pre)) (triples (ints_of_line post))
                          e_suggest e_ctx !est d evs [] with
                  | Ok ((st, out), (hits, whits)) ->
                      est := st;
                      let show l =
                        let pid = int_of_n l.cl_body in
                        let v = match Hashtbl.find_opt vis_tbl (e ^ " " ^ string_of_int pid) with Some v -> string_of_int v | None -> "?" ^ string_of_int pid in
                        Printf.sprintf "%d %d %s" (int_of_nat l.cl_span.sstart) (int_of_nat l.cl_span.send) v in
                      let lints = String.concat " " (List.map show out) in
                      if ent = Wasm then print_endline lints
                      else print_endline (String.trim (lints ^ "|" ^ String.concat "" (List.map (fun b -> if b then "H" else "M") hits)
                                          ^ "|" ^ String.concat "" (List.map (fun b -> if b then "h" else "m") whits)))
                  | Panic _ -> print_endline "P")
           with Unknown_triple -> print_endline "UNKNOWN (the model needs an uncached result, a suggestion or a context hash the shadow linter never produced)"
              | Unknown_cfg r -> print_endline ("UNKNOWN-CFG the model's effective configuration was never produced by the real fill_with_curated: " ^ r)
              | Failure m -> print_endline m
              | Invalid_argument m -> print_endline m)
       | _ -> print_endline "?")
  | _ -> print_endline "?"
(* ---- per-thread state (Model/C05Thread.v) ----
     TN                  -> a freshly spawned thread: AUTOMATON_BUILDERS = [(3, new(3))], BUFFERS empty;        "ok"
     TF d                -> FstDictionary::fuzzy_match(word, d, _) on that thread (two build_dfa calls); prints the
                            distance of the builder that served it (observable: the largest edit distance among
                            the results of a word that has neighbours at every distance)
     TD|src cps|tgt cps  -> edit_distance_min_alloc(src, tgt, BUFFERS) on that thread (through WithinEditDistance);
                            prints the distance, or "P" *)
let th_builders = ref drv_builders_init
let th_bufs : (n list * n list) ref = ref ([], [])
let thread_line l =
  if String.length l >= 2 && l.[1] = 'N' then (th_builders := drv_builders_init; th_bufs := ([], []); print_endline "ok")
  else if String.length l >= 2 && l.[1] = 'F' then
    (match ints_of_line (String.sub l 2 (String.length l - 2)) with
     | [d] -> (match drv_fuzzy_served (nat_of_int d) !th_builders with
               | Ok (s, v) -> th_builders := v; print_endline (string_of_int (int_of_nat s))
               | Panic _ -> print_endline "P")
     | _ -> print_endline "?")
  else if String.length l >= 2 && l.[1] = 'D' then
    (match String.split_on_char '|' l with
     | [_; a; b] ->
         (match drv_ed (text_of_line a) (text_of_line b) !th_bufs with
          | Ok (d, bufs) -> th_bufs := bufs; print_endline (string_of_int (int_of_n d))
          | Panic _ -> print_endline "P")
     | _ -> print_endline "?")
  else print_endline "?"
let () =
  iter_lines (fun l ->
    if String.length l = 0 then print_newline () else
    if String.length l >= 2 && l.[0] = 'E' && l.[1] <> ' ' then entry_line l else
    match l.[0] with
    | 'T' -> thread_line l
    | 'S' when String.length l >= 2 && l.[1] = 'N' ->
        (* SN cap -> a new SpellCheck: empty word cache of capacity cap (read from spell_check.rs) *)
        lru_cap := (match ints_of_line (String.sub l 2 (String.length l - 2)) with [c] -> c | _ -> 10000);
        lru_st := []; Hashtbl.reset lru_spell; print_endline "ok"
    | 'S' ->
        (* SL|src|words ("s e pid": a rejected word and the identity of the lint an uncached SpellCheck builds for it)
           -> SpellCheck::lint on the long-lived instance over the concrete LRU; prints "s e pid ...|hm.." *)
        (match String.split_on_char '|' l with
         | [_; src; words] ->
             let src = text_of_line src in
             let slice a b = List.filteri (fun i _ -> i >= a && i < b) src in
             let miss = List.filter_map (fun wd ->
                 match String.split_on_char ' ' (String.trim wd) with
                 | [a; b; p] ->
                     let a = int_of_string a and b = int_of_string b in
                     let chars = slice a b in
                     Hashtbl.replace lru_spell (str_text chars) (int_of_string p);
                     Some ({ sstart = nat_of_int a; send = nat_of_int b }, chars)
                 | _ -> None) (String.split_on_char ';' words) in
             let sug w = match Hashtbl.find_opt lru_spell (str_text w) with Some p -> [[n_of_int p]] | None -> [[n_of_int 0]] in
             let ((sm, out), hits) = drv_lru_words (nat_of_int !lru_cap) sug miss !lru_st in
             lru_st := sm;
             print_endline (show_lints out ^ "|" ^ String.concat "" (List.map (fun b -> if b then "h" else "m") hits))
         | _ -> print_endline "?")
    | 'X' -> curated := parse_cfg (after_bar l); print_endline "ok"
    | 'K' ->
        (match ints_of_line (String.sub (before_bar l) 1 (String.length (before_bar l) - 1)) with
         | [c; h] -> Hashtbl.replace cfg_reg (render_cfg (parse_cfg (after_bar l))) (c, h); print_endline "ok"
         | _ -> print_endline "?")
    | 'P' ->
        (match String.split_on_char ' ' (String.trim l) with
         | [_; e; pid; vid] -> Hashtbl.replace vis_tbl (e ^ " " ^ pid) (int_of_string vid); print_endline "ok"
         | _ -> print_endline "?")
    | 'N' -> st_code := fresh (n_of_int 0); Hashtbl.reset spell_tbl; print_endline "ok"
    | 'C' ->
        (match ints_of_line (String.sub l 1 (String.length l - 1)) with
         | [c; h] ->
             Hashtbl.replace hash_of_cfg c h;
             st_code := run_set_cfg !st_code (n_of_int c);
             print_endline "ok"
         | _ -> print_endline "?")
    | 'E' ->
        let ev = ints_of_line (String.sub l 1 (String.length l - 1)) in
        st_code := run_evict !st_code (keep_code ev) (fun _ -> true);
        print_endline "ok"
    | 'L' ->
        (match String.split_on_char '|' l with
         | [_; src; pre; words; post; chunks] ->
             let src = text_of_line src in
             let spell_on, words = match String.split_on_char ':' words with
               | [on; ws] -> (String.trim on = "1", ws)
               | _ -> (false, "") in
             let slice a b = List.filteri (fun i _ -> i >= a && i < b) src in
             let miss = List.filter_map (fun wd ->
                 match String.split_on_char ' ' (String.trim wd) with
                 | [a; b; p] ->
                     let a = int_of_string a and b = int_of_string b in
                     let chars = slice a b in
                     if p <> "?" then Hashtbl.replace spell_tbl (str_text chars) (int_of_string p);
                     Some ({ sstart = nat_of_int a; send = nat_of_int b }, chars)
                 | _ -> None) (String.split_on_char ';' words) in
             let cfg = int_of_n (!st_code).st_cfg in
             let h = cfg_hash (n_of_int cfg) in
             (try
               (* (tokens, keyid, thid, known, evicted-before) per token slice of iter_chunks() *)
               let parsed = List.filter_map (fun c ->
                   let c = String.trim c in
                   if c = "" then None else if c = "-" then Some ([], 0, 0, "?", []) else
                   match String.split_on_char ':' c with
                   | [hd; known; ev; toks] ->
                       (match ints_of_line hd with
                        | [kid; thid] -> Some (tokens (ints_of_line toks), kid, thid, String.trim known, ints_of_line ev)
                        | _ -> failwith "bad chunk head")
                   | _ -> failwith "bad chunk") (String.split_on_char ';' chunks) in
               match drv_doc_of src (List.map (fun (ts, _, _, _, _) -> ts) parsed) miss with
               | Panic _ -> print_endline "P"
               | Ok d ->
                   (* register, per chunk with a span: token hash identity, key identity, the observed uncached result *)
                   let evs = List.map2 (fun oc (_, kid, thid, known, ev) ->
                       (match oc with
                        | None -> ()
                        | Some ch ->
                            (match rel_toks ch.c_start ch.c_toks with
                             | Ok rt ->
                                 Hashtbl.replace thash (str_toks rt) thid;
                                 Hashtbl.replace keys kid ((ch.c_chars, h), n_of_int thid);
                                 if known <> "?" then Hashtbl.replace table (triple_key ch.c_chars rt cfg) (triples (ints_of_line known))
                             | Panic _ -> ()));
                       keep_code ev) d.d_chunks parsed in
                   (match run_lint_code cfg_hash tok_hash pattern_rel (triples (ints_of_line pre)) (triples (ints_of_line post)) spell_on suggest !st_code d evs [] with
                    | Ok ((st, out), (hits, whits)) ->
                        st_code := st;
                        print_endline (show_lints out ^ "|" ^ String.concat "" (List.map (fun b -> if b then "H" else "M") hits)
                                       ^ "|" ^ String.concat "" (List.map (fun b -> if b then "h" else "m") whits))
                    | Panic _ -> print_endline "P")
             with Unknown_triple -> print_endline "UNKNOWN (the model misses where the implementation never computed an uncached result)"
                | Failure m -> print_endline m
                | Invalid_argument m -> print_endline m)
         | _ -> print_endline "?")
    | _ -> print_endline "?")
