(* c17 driver.  stdin: one case per line
     T cps | cp:bits ...   -> raw lexing (Number.run_lex):  "s e k a;s e k a;..."   or "P" (panic)
     C pre | num | sfx | post | cp:bits ...  -> Number.ctx_ok (the context class of C17_lint_iff): "1" / "0"
     D cps | cp:bits ...   -> document + rule (Number.run_doc): "<number tokens> # <lints>"
                              number tokens "s e sfx;..." ; lints "s e sug/sug;..." (sug = cps joined by ',') or "U"
   The part after '|' lists the Unicode classes of the non-ASCII characters of the text as measured by the
   harness on Rust's char (bit 1 is_numeric, 2 is_alphanumeric, 4 is_english_lingual, 8 is_whitespace); the
   ASCII classes are the ones the theorems assume (and the harness checks against Rust on every run).
   url_tail / email_tail are Model/C17Tails.v (run_lex_full / run_doc_full); "X" = a non-ASCII character without class bits.
     E cps | cp:bits ...   -> the WHOLE modelled Document::parse incl. condense_ellipsis / condense_latin / metadata loop
                              (C17Later.run_final_full): "<all tokens s e k a;...> # <lints>" or "P"
     F cps                 -> C17Float.run_f64_digits: the correctly rounded binary64 value of the digit string and
                              correct_suffix_for_f64 on it: "<16 hex digits of the bits> <suffix code 0..4>"
     G neg m e | G nan | G inf neg -> C17Float.run_f64_parts / run_f64_special on the datum (-1)^neg * m * 2^e
     M pre,digits,sfx;pre,digits,sfx;... | post | cp:bits ... -> C17Texts.run_multi (the class mctx_ok of C17_lint_list and
                              the lints the theorem promises, mexpected): "1 # s e sug;..." inside the class, "0" outside *)
exception Outside
let ascii_digit c = c >= 48 && c <= 57
let ascii_alpha c = (c >= 65 && c <= 90) || (c >= 97 && c <= 122)
let mk_uni (tbl : (int * int) list) =
  let bit b c dflt = if c < 128 then dflt else (match List.assoc_opt c tbl with Some x -> x land b <> 0 | None -> raise Outside) in
  { u_numeric = (fun c -> let c = int_of_n c in bit 1 c (ascii_digit c));
    u_alnum = (fun c -> let c = int_of_n c in bit 2 c (ascii_digit c || ascii_alpha c));
    u_lingual = (fun c -> let c = int_of_n c in bit 4 c (ascii_alpha c));
    u_white = (fun c -> let c = int_of_n c in bit 8 c ((c >= 9 && c <= 13) || c = 32)) }
let i = int_of_nat
let parse_tbl s =
  List.filter_map (fun w -> if w = "" then None else
    match String.split_on_char ':' w with [a; b] -> Some (int_of_string a, int_of_string b) | _ -> None)
    (String.split_on_char ' ' s)
let tok_str (((s, e), (k, a))) = Printf.sprintf "%d %d %d %d" (i s) (i e) (i k) (i a)
let num_str (((s, e), (_, a))) = Printf.sprintf "%d %d %d" (i s) (i e) (i a)
let sug_str (cs : n list) = String.concat "," (List.map (fun c -> string_of_int (int_of_n c)) cs)
let lint_str ((s, e), sugs) = Printf.sprintf "%d %d %s" (i s) (i e) (String.concat "/" (List.map sug_str sugs))
(* hex digits of a non-negative extracted Z (bits of an f64), 16 digits *)
let hex_of_z (v : z) : string =
  let rec bits p = match p with XH -> [1] | XO q -> 0 :: bits q | XI q -> 1 :: bits q in   (* least significant first *)
  let bs = match v with Z0 -> [] | Zpos p -> bits p | Zneg _ -> [] in
  let arr = Array.make 64 0 in
  List.iteri (fun k b -> if k < 64 then arr.(k) <- b) bs;
  String.init 16 (fun d -> let k = (15 - d) * 4 in
    "0123456789abcdef".[arr.(k) + 2 * arr.(k+1) + 4 * arr.(k+2) + 8 * arr.(k+3)])
let z_of_int (k : int) : z = if k = 0 then Z0 else if k > 0 then Zpos (pos_of_int k) else Zneg (pos_of_int (- k))
let f64_str (bits, code) = Printf.sprintf "%s %d" (hex_of_z bits) (i code)
let words s = List.filter (fun w -> w <> "") (String.split_on_char ' ' s)
let () =
  iter_lines (fun l ->
    if String.length l >= 2 && l.[0] = 'F' then
      print_endline (f64_str (run_f64_digits (text_of_line (String.sub l 1 (String.length l - 1)))))
    else if String.length l >= 2 && l.[0] = 'G' then
      (match words (String.sub l 1 (String.length l - 1)) with
       | ["nan"] -> print_endline (f64_str (run_f64_special (nat_of_int 0)))
       | ["inf"; s] -> print_endline (f64_str (run_f64_special (nat_of_int (if s = "1" then 2 else 1))))
       | [s; m; e] -> print_endline (f64_str (run_f64_parts (s = "1") (n_of_int (int_of_string m)) (z_of_int (int_of_string e))))
       | _ -> print_endline "?")
    else if String.length l >= 2 && l.[0] = 'M' then
      (match split_bar (String.sub l 1 (String.length l - 1)) with
       | [is; post; c] ->
           (try
             let u = mk_uni (parse_tbl c) in
             let inst_of w = match String.split_on_char ',' w with
               | [p; d; s] -> (match text_of_line s with
                               | [a; b] -> { i_pre = text_of_line p; i_digits = text_of_line d; i_a = a; i_b = b }
                               | _ -> failwith "suffix")
               | _ -> failwith "inst" in
             let insts = List.filter_map (fun w -> if String.trim w = "" then None else Some (inst_of w)) (String.split_on_char ';' is) in
             let (ok, lints) = run_multi u insts (text_of_line post) in
             print_endline (if ok then String.trim ("1 # " ^ String.concat ";" (List.map lint_str lints)) else "0")
           with Outside -> print_endline "X" | Failure _ -> print_endline "?")
       | _ -> print_endline "?")
    else
    if String.length l < 2 then print_endline "?" else
    let body = String.sub l 1 (String.length l - 1) in
    let parts = split_bar body in
    let text, tbl = match parts with
      | [t] -> text_of_line t, []
      | [t; c] -> text_of_line t, parse_tbl c
      | [_; _; _; _; c] -> [], parse_tbl c
      | _ -> [], [] in
    let u = mk_uni tbl in
    try
      match l.[0] with
      | 'C' -> (match parts with
                | [p; n; s; q; _] ->
                    print_endline (if ctx_ok u (text_of_line p) (text_of_line n) (text_of_line s) (text_of_line q) then "1" else "0")
                | _ -> print_endline "?")
      | 'T' -> (match run_lex_full u text with
                | None -> print_endline "P"
                | Some toks -> print_endline (String.concat ";" (List.map tok_str toks)))
      | 'D' -> (match run_doc_full u text with
                | None -> print_endline "P"
                | Some (nums, lints) ->
                    print_endline (String.trim (String.concat ";" (List.map num_str nums) ^ " # " ^
                      (match lints with None -> "U" | Some ls -> String.concat ";" (List.map lint_str ls)))))
      | 'E' -> (match run_final_full u text with
                | None -> print_endline "P"
                | Some (toks, lints) ->
                    print_endline (String.trim (String.concat ";" (List.map tok_str toks) ^ " # " ^
                      (match lints with None -> "U" | Some ls -> String.concat ";" (List.map lint_str ls)))))
      | _ -> print_endline "?"
    with Outside -> print_endline "X")
