(* c08 driver.  stdin: one case per line.
     S a b | text cps                 -> span_to_range;  "P" or "l1 c1 l2 c2"
     R l1 c1 l2 c2 | text cps         -> range_to_span;  "P" or "a b"
     V l c | text cps                 -> resolve (spec, lines end at LF); "N" or "i"
     W l c | text cps                 -> resolve_lsp (spec, lines end at LF / CRLF / CR); "N" or "i"
     D l1 c1 l2 c2 | text cps | nt    -> client_apply_lsp (spec); "N" or "O cps"
     E kind a b | text cps | cs cps   -> text_edit;      "P" or "l1 c1 l2 c2 | cps"
     C l1 c1 l2 c2 | text cps | nt    -> client_apply (spec); "N" or "O cps"
     A kind a b | text cps | cs cps   -> Suggestion::apply;   "P" or "O cps"
   with the argument --old, R runs range_to_span_old (HISTORY: the code before 229693d, the fix of F9;
   used by hand to explain the reverse-fix mutation, never by ./check) *)
let old = Array.exists (fun a -> a = "--old") Sys.argv
let i = int_of_nat
let n = nat_of_int
let () =
  iter_lines (fun l ->
    if String.length l = 0 then print_newline () else
    let body = String.sub l 1 (String.length l - 1) in
    let parts = split_bar body in
    let out =
      match l.[0], parts with
      | 'S', [hd; t] ->
          (match ints_of_line hd with
           | [a; b] ->
               (match run_span_to_range (text_of_line t) (n a) (n b) with
                | None -> "P"
                | Some ((l1, c1), (l2, c2)) -> Printf.sprintf "%d %d %d %d" (i l1) (i c1) (i l2) (i c2))
           | _ -> "?")
      | 'R', [hd; t] ->
          (match ints_of_line hd with
           | [l1; c1; l2; c2] ->
               (match (if old then run_range_to_span_old else run_range_to_span) (text_of_line t) (n l1) (n c1) (n l2) (n c2) with
                | None -> "P"
                | Some (a, b) -> Printf.sprintf "%d %d" (i a) (i b))
           | _ -> "?")
      | 'V', [hd; t] ->
          (match ints_of_line hd with
           | [l1; c1] ->
               (match run_resolve (text_of_line t) (n l1) (n c1) with
                | None -> "N"
                | Some a -> string_of_int (i a))
           | _ -> "?")
      | 'W', [hd; t] ->
          (match ints_of_line hd with
           | [l1; c1] ->
               (match run_resolve_lsp (text_of_line t) (n l1) (n c1) with
                | None -> "N"
                | Some a -> string_of_int (i a))
           | _ -> "?")
      | 'D', [hd; t; nt] ->
          (match ints_of_line hd with
           | [l1; c1; l2; c2] ->
               (match run_client_apply_lsp (text_of_line t) (n l1) (n c1) (n l2) (n c2) (text_of_line nt) with
                | None -> "N"
                | Some r -> String.trim ("O " ^ line_of_text r))
           | _ -> "?")
      | 'E', [hd; t; cs] ->
          (match ints_of_line hd with
           | [k; a; b] ->
               (match run_text_edit (n k) (text_of_line cs) (n a) (n b) (text_of_line t) with
                | None -> "P"
                | Some (((l1, c1), (l2, c2)), nt) ->
                    String.trim (Printf.sprintf "%d %d %d %d | %s" (i l1) (i c1) (i l2) (i c2) (line_of_text nt)))
           | _ -> "?")
      | 'C', [hd; t; nt] ->
          (match ints_of_line hd with
           | [l1; c1; l2; c2] ->
               (match run_client_apply (text_of_line t) (n l1) (n c1) (n l2) (n c2) (text_of_line nt) with
                | None -> "N"
                | Some r -> String.trim ("O " ^ line_of_text r))
           | _ -> "?")
      | 'A', [hd; t; cs] ->
          (match ints_of_line hd with
           | [k; a; b] ->
               (match run_apply (n k) (text_of_line cs) (n a) (n b) (text_of_line t) with
                | None -> "P"
                | Some r -> String.trim ("O " ^ line_of_text r))
           | _ -> "?")
      | _ -> "?"
    in
    print_endline out)
