(* c08 driver.  stdin: one case per line.
     S a b | text cps                 -> span_to_range;  "P" or "l1 c1 l2 c2"
     R l1 c1 l2 c2 | text cps         -> range_to_span;  "P" or "a b"
     V l c | text cps                 -> resolve (spec, lines end at LF); "N" or "i"
     W l c | text cps                 -> resolve_lsp (spec, lines end at LF / CRLF / CR); "N" or "i"
     D l1 c1 l2 c2 | text cps | nt    -> client_apply_lsp (spec); "N" or "O cps"
     E kind a b | text cps | cs cps   -> text_edit;      "P" or "l1 c1 l2 c2 | cps"
     C l1 c1 l2 c2 | text cps | nt    -> client_apply (spec); "N" or "O cps"
     A kind a b | text cps | cs cps   -> Suggestion::apply;   "P" or "O cps"
     T x                              -> `x as u32` of a usize x (decimal, < 2^62): x mod 2^32
     K i | a b u a b u ...            -> Document::get_token_at_char_index(i) on the token vector (span, kind == Url):
                                         "N" or "a b u" of the token found (Model/C08TokenAt.v: token_at)
     B i | a b u a b u ...            -> slice::binary_search_by under the same comparator: "O k" / "E k"
     H | docs | foreign | ops         -> a history on ONE DocumentState (Model/C08DocState.v: drv_run)
         docs    = doc ; doc ; ...     doc = id , text cps , lint / lint / ... , token vector "a b u a b u ..." (span [a,b), u = 1 for TokenKind::Url; in the parser's order)
                   lint = start end prio spell tag key : sug : sug ...   sug = kind cps (0 ReplaceWith 1 InsertAfter 2 Remove)
         foreign = docid start end prio tag key ; ...   (key of a lint against a document it does not belong to)
         ops     = D id ; G sev ; A l1 c1 l2 c2 force_stable ; I docid lintidx ; ...
         answer  = one item per G / A operation joined by " ; ":
                   "G: l1 c1 l2 c2 sev tag, ..." | "G: P" | "A: item, item, ..." | "A: P"
                   item = E l1 c1 l2 c2 [cps] | I start end prio tag nsugs | U [cps] | F [cps] | O [cps]
     S and E run the conversions WITH their u32 casts (span_to_range_u32 / text_edit_u32)
   with the argument --old, R runs range_to_span_old (HISTORY: the code before 229693d, the fix of F9;
   used by hand to explain the reverse-fix mutation, never by ./check) *)
let old = Array.exists (fun a -> a = "--old") Sys.argv
let i = int_of_nat
let n = nat_of_int
let split_on c s = List.map String.trim (String.split_on_char c s)
let nonempty l = List.filter (fun x -> x <> "") l
let parse_sug s =
  match ints_of_line s with
  | 0 :: cs -> ReplaceWith (List.map n_of_int cs)
  | 1 :: cs -> InsertAfter (List.map n_of_int cs)
  | _ -> Remove
let parse_lint s =
  match split_on ':' s with
  | hd :: sugs ->
      (match ints_of_line hd with
       | [a; b; p; sp; tag; key] ->
           ({ lspan = { sstart = n a; send = n b }; lprio = n p; lsugs = List.map parse_sug sugs;
              lspell = (sp = 1); ltag = n_of_int tag }, n_of_int key)
       | _ -> failwith "lint")
  | [] -> failwith "lint"
let rec toks = function a :: b :: u :: r -> { tspan = { sstart = n a; send = n b }; turl = (u = 1) } :: toks r | _ -> []
let rec raw_toks = function a :: b :: u :: r -> ((n a, n b), u = 1) :: raw_toks r | _ -> []
let parse_doc s =
  match split_on ',' s with
  | [id; t; lints; urls] ->
      { dd_id = n (int_of_string id); dd_text = text_of_line t;
        dd_lints = List.map parse_lint (nonempty (split_on '/' lints)); dd_tokens = toks (ints_of_line urls) }
  | _ -> failwith "doc"
let parse_foreign s =
  match ints_of_line s with
  | [d; a; b; p; tag; key] ->
      ((n d, { lspan = { sstart = n a; send = n b }; lprio = n p; lsugs = []; lspell = false; ltag = n_of_int tag }),
       n_of_int key)
  | _ -> failwith "foreign"
let find_doc docs id = List.find (fun d -> i d.dd_id = id) docs
let parse_op docs s =
  match String.split_on_char ' ' s with
  | "D" :: [id] -> OSetDocument (find_doc docs (int_of_string id))
  | "G" :: [sev] -> ODiagnostics (n (int_of_string sev))
  | "A" :: [l1; c1; l2; c2; fs] ->
      let f x = n (int_of_string x) in
      OCodeActions (((f l1, f c1), (f l2, f c2)), fs = "1")
  | "I" :: [d; k] -> OIgnore (fst (List.nth (find_doc docs (int_of_string d)).dd_lints (int_of_string k)))
  | _ -> failwith "op"
let show_range ((l1, c1), (l2, c2)) = Printf.sprintf "%d %d %d %d" (i l1) (i c1) (i l2) (i c2)
let show_action = function
  | AEdit (r, nt, _) -> String.trim (Printf.sprintf "E %s [%s]" (show_range r) (line_of_text nt))
  | AIgnore l ->
      Printf.sprintf "I %d %d %d %d %d" (i l.lspan.sstart) (i l.lspan.send) (i l.lprio) (int_of_n l.ltag)
        (List.length l.lsugs)
  | AAddUser w -> Printf.sprintf "U [%s]" (line_of_text w)
  | AAddFile w -> Printf.sprintf "F [%s]" (line_of_text w)
  | AOpenUrl w -> Printf.sprintf "O [%s]" (line_of_text w)
let show_answer = function
  | RNone -> None
  | RDiagnostics (Panic _) -> Some "G: P"
  | RDiagnostics (Ok ds) ->
      Some (String.trim ("G: " ^ String.concat ", "
        (List.map (fun ((r, sev), tag) -> Printf.sprintf "%s %d %d" (show_range r) (i sev) (int_of_n tag)) ds)))
  | RActions (Panic _) -> Some "A: P"
  | RActions (Ok acts) -> Some (String.trim ("A: " ^ String.concat ", " (List.map show_action acts)))
let run_history docs foreign ops =
  let docs = List.map parse_doc (nonempty (split_on ';' docs)) in
  let foreign = List.map parse_foreign (nonempty (split_on ';' foreign)) in
  let ops = List.map (parse_op docs) (nonempty (split_on ';' ops)) in
  let d0 = { dd_id = n 0; dd_text = []; dd_lints = []; dd_tokens = [] } in
  String.concat " ; " (List.filter_map show_answer (drv_run foreign d0 ops))
let () =
  iter_lines (fun l ->
    if String.length l = 0 then print_newline () else
    let body = String.sub l 1 (String.length l - 1) in
    let parts = split_bar body in
    let out =
      match l.[0], parts with
      | 'S', [hd; t] ->
          (match ints_of_line hd with
           | [a; b] ->
               (match run_span_to_range_u32 (text_of_line t) (n a) (n b) with
                | None -> "P"
                | Some ((l1, c1), (l2, c2)) -> Printf.sprintf "%d %d %d %d" (i l1) (i c1) (i l2) (i c2))
           | _ -> "?")
      | 'R', [hd; t] ->
          (match ints_of_line hd with
           | [l1; c1; l2; c2] ->
               (match (if old then run_range_to_span_old else run_range_to_span) (text_of_line t) (n l1) (n c1) (n l2) (n c2) with
                | None -> "P"
                | Some (a, b) -> Printf.sprintf "%d %d" (i a) (i b))
           | _ -> "?")
      | 'V', [hd; t] ->
          (match ints_of_line hd with
           | [l1; c1] ->
               (match run_resolve (text_of_line t) (n l1) (n c1) with
                | None -> "N"
                | Some a -> string_of_int (i a))
           | _ -> "?")
      | 'W', [hd; t] ->
          (match ints_of_line hd with
           | [l1; c1] ->
               (match run_resolve_lsp (text_of_line t) (n l1) (n c1) with
                | None -> "N"
                | Some a -> string_of_int (i a))
           | _ -> "?")
      | 'D', [hd; t; nt] ->
          (match ints_of_line hd with
           | [l1; c1; l2; c2] ->
               (match run_client_apply_lsp (text_of_line t) (n l1) (n c1) (n l2) (n c2) (text_of_line nt) with
                | None -> "N"
                | Some r -> String.trim ("O " ^ line_of_text r))
           | _ -> "?")
      | 'E', [hd; t; cs] ->
          (match ints_of_line hd with
           | [k; a; b] ->
               (match run_text_edit_u32 (n k) (text_of_line cs) (n a) (n b) (text_of_line t) with
                | None -> "P"
                | Some (((l1, c1), (l2, c2)), nt) ->
                    String.trim (Printf.sprintf "%d %d %d %d | %s" (i l1) (i c1) (i l2) (i c2) (line_of_text nt)))
           | _ -> "?")
      | 'C', [hd; t; nt] ->
          (match ints_of_line hd with
           | [l1; c1; l2; c2] ->
               (match run_client_apply (text_of_line t) (n l1) (n c1) (n l2) (n c2) (text_of_line nt) with
                | None -> "N"
                | Some r -> String.trim ("O " ^ line_of_text r))
           | _ -> "?")
      | 'A', [hd; t; cs] ->
          (match ints_of_line hd with
           | [k; a; b] ->
               (match run_apply (n k) (text_of_line cs) (n a) (n b) (text_of_line t) with
                | None -> "P"
                | Some r -> String.trim ("O " ^ line_of_text r))
           | _ -> "?")
      | 'K', [hd; tk] ->
          (match ints_of_line hd with
           | [ix] ->
               (match run_token_at (raw_toks (ints_of_line tk)) (n ix) with
                | None -> "P"
                | Some None -> "N"
                | Some (Some ((a, b), u)) -> Printf.sprintf "%d %d %d" (i a) (i b) (if u then 1 else 0))
           | _ -> "?")
      | 'B', [hd; tk] ->
          (match ints_of_line hd with
           | [ix] ->
               (match run_binary_search (raw_toks (ints_of_line tk)) (n ix) with
                | None -> "P"
                | Some (true, k) -> Printf.sprintf "O %d" (i k)
                | Some (false, k) -> Printf.sprintf "E %d" (i k))
           | _ -> "?")
      | 'T', [x] -> string_of_int (int_of_n (run_as_u32 (n_of_int (int_of_string x))))
      | 'H', [_; docs; foreign; ops] -> (try run_history docs foreign ops with _ -> "?")
      | _ -> "?"
    in
    print_endline out)
