(* c10 driver — the extracted run-time monitor model of C10 (Effects.judge / loopback_bytes).
   stdin: one case per line, stdout: one answer per line
     C <user> <filedir> <stats> <own,own,…|->   set the monitor configuration (paths hex-encoded; "-" = empty) -> "cfg"
     E S <fam> | E C <fam> <upath> | E D <fam> | E B <fam> | E O <0|1> <path> | E R <src> <dst> | E U <path> | E M <path>
                                                 -> verdict of Effects.judge under the current configuration: 0 ok, 1 net, 2 resolve, 3 write
     L <bytes>                                   -> 1 if Effects.loopback_bytes accepts the literal, else 0
     F <filedir> <file path of the URL | N>      -> EffectsSave.file_dict_plan: "-" (nothing written) or "O<open> R<src>:<dst>"
     U <userDictPath>                            -> EffectsSave.user_dict_plan, same format ("-" = refused: the path names no file)
     G <home> <cwd> <cfgdir> <datadir> <u> <f> <s>  -> EffectsConfig.parse_render (Config::from_lsp_config's three paths): each
                                                    setting is A (absent), X (present, not a string) or S<hex> (S- = "");
                                                    answer "E" (Err) or "<user> <filedir> <stats> <filedir as the monitor is told it>" (hex)
     K <user> <filedir> <file>                   -> C10Cli.cli_lint_reads: the two dictionary files harper-cli lint opens for reading, "<user> <filedict>" (hex)
   Self-contained (does not use conv_*.ml: the extracted model defines its own type named `string`). *)
let rec pos_of_int n = if n <= 1 then XH else if n land 1 = 0 then XO (pos_of_int (n lsr 1)) else XI (pos_of_int (n lsr 1))
let n_of_int n = if n <= 0 then N0 else Npos (pos_of_int n)
let rec int_of_pos = function XH -> 1 | XO p -> 2 * int_of_pos p | XI p -> 2 * int_of_pos p + 1
let int_of_n = function N0 -> 0 | Npos p -> int_of_pos p
let unhex s =
  if s = "-" then [] else
  let n = Stdlib.String.length s / 2 in
  List.init n (fun i -> n_of_int (int_of_string ("0x" ^ Stdlib.String.sub s (2 * i) 2)))
let hex l = if l = [] then "-" else Stdlib.String.concat "" (List.map (fun n -> Printf.sprintf "%02x" (int_of_n n)) l)
let plan_line = function
  | None -> "-"
  | Some ((o, s), d) -> Printf.sprintf "O%s R%s:%s" (hex o) (hex s) (hex d)
let sval w =
  if w = "A" then SAbsent else if w = "X" then SNotString
  else SString (unhex (Stdlib.String.sub w 1 (Stdlib.String.length w - 1)))
let env h c cd dd = { e_home = unhex h; e_cwd = unhex c; e_cfgdir = unhex cd; e_datadir = unhex dd }
let words l = List.filter (fun w -> w <> "") (Stdlib.String.split_on_char ' ' l)
let cfg = ref { m_user = []; m_filedir = []; m_stats = []; m_own = [] }
let judge e = print_endline (string_of_int (int_of_n (run_judge !cfg e)))
let () =
  let rec loop () =
    match input_line stdin with
    | exception End_of_file -> ()
    | l ->
      (match words l with
       | ["C"; u; f; s; o] ->
           let own = if o = "-" then [] else List.map unhex (Stdlib.String.split_on_char ',' o) in
           cfg := { m_user = unhex u; m_filedir = unhex f; m_stats = unhex s; m_own = own };
           print_endline "cfg"
       | ["E"; "S"; f] -> judge (EvSocket (n_of_int (int_of_string f)))
       | ["E"; "C"; f; p] -> judge (EvConnect (n_of_int (int_of_string f), unhex p))
       | ["E"; "D"; f] -> judge (EvSend (n_of_int (int_of_string f)))
       | ["E"; "B"; f] -> judge (EvBind (n_of_int (int_of_string f)))
       | ["E"; "O"; w; p] -> judge (EvOpen (w = "1", unhex p))
       | ["E"; "R"; a; b] -> judge (EvRename (unhex a, unhex b))
       | ["E"; "U"; p] -> judge (EvUnlink (unhex p))
       | ["E"; "M"; p] -> judge (EvMkdir (unhex p))
       | ["F"; d; "N"] -> print_endline (plan_line (file_dict_plan (unhex d) None))
       | ["F"; d; p] -> print_endline (plan_line (file_dict_plan (unhex d) (Some (unhex p))))
       | ["U"; u] -> print_endline (plan_line (user_dict_plan (unhex u)))
       | ["G"; h; c0; cd; dd; u; f; s] ->
           print_endline (match parse_render (env h c0 cd dd) (sval u) (sval f) (sval s) with
             | None -> "E"
             | Some ((a, b), c) ->
                 let m = match parse_monitor_filedir (env h c0 cd dd) (sval u) (sval f) (sval s) with Some m -> hex m | None -> "?" in
                 Printf.sprintf "%s %s %s %s" (hex a) (hex b) (hex c) m)
       | ["K"; u; d; f] -> let (a, b) = cli_lint_reads (unhex u) (unhex d) (unhex f) in print_endline (Printf.sprintf "%s %s" (hex a) (hex b))
       | ["L"; b] -> print_endline (if loopback_bytes (unhex b) then "1" else "0")
       | _ -> print_endline "?");
      loop ()
  in
  loop ()
