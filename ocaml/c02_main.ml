(* c02 driver.  stdin: one case per line; stdout: one result per line.
     U <name> lo-hi lo-hi ...      load the range table of a Unicode predicate (ws | num | alpha | ling),
                                   dumped by the harness from Rust's own char methods; prints "U <name> <#ranges>"
     L <cps>                       PlainEnglish.parse            -> "O tok tok ..." | "P"
     D <cps>                       Document::new_plain_english   -> "O tok tok ..." | "P"
     T <cps> | tok tok ...         Document::parse passes on a given token vector (fake parser)
     I <cps> | tok tok ... | w ; w ; ...   IsolateEnglish::parse over a fake inner parser returning the tokens; the
                                   words (code points) after the second bar are the queries the real dictionary
                                   answered `true` to (contains_word), recorded by the harness
     C <cps> | tok tok ... | w ; w ; ...   CollapseIdentifiers::parse, likewise
     J <cps> | w ; w ; ...         Document::new(text, IsolateEnglish(PlainEnglish))       (document_plain_ie)
     K <cps> | w ; w ; ...         Document::new(text, CollapseIdentifiers(PlainEnglish))  (document_plain_ci)
     M <0|1> <cps> | code n rs re ...   Markdown::parse over the recorded pulldown-cmark event stream (C02Markdown.markdown_parse);
                                   0|1 = ignore_link_title; an event = arm of the match (0 Start with n = tag: 0 Paragraph 1 Link
                                   2 Heading 3 Item 4 TableCell 5 Emphasis 6 Strong 7 Strikethrough 8 CodeBlock 9 List 10 other;
                                   1 End(breaking) 2 End(other) 3 SoftBreak 4 HardBreak 5 Code/Math 6 Text 7 Html 8 other),
                                   payload char count, byte range -> "K1|K0 Z0|Z1|Z2|Z- O tok ..." (K = md_contractb of the stream, Z = md_doc_class of the vector)
     N <0|1> <cps> | code n rs re ...   Document::new(text, Markdown)   (document_markdown)
   token (output) = start,end,KIND with KIND one of
     W | P:<VariantName> | P:Quote:<twin|-> | P:Currency:<Name> | D | N:<f64 bits hex>:<radix>:<precision>:<Suffix|->
     | S:<n> | NL:<n> | E | U | H | X | PB | R
   token (input of T): the same, except  P:<code point of the character>  and  N:<small integer>.
   The f64 of a number is obtained from the model's exact decimal value with strtod (float_of_string). *)
let tables : (string, (int * int) array) Hashtbl.t = Hashtbl.create 8
let in_table name =
  fun (c : n) ->
    match Hashtbl.find_opt tables name with
    | None -> false
    | Some a ->
        let x = int_of_n c in
        let lo = ref 0 and hi = ref (Array.length a - 1) and found = ref false in
        while not !found && !lo <= !hi do
          let mid = (!lo + !hi) / 2 in
          let (l, h) = a.(mid) in
          if x < l then hi := mid - 1 else if x > h then lo := mid + 1 else found := true
        done;
        !found
let uni_now () = { u_whitespace = in_table "ws"; u_numeric = in_table "num"; u_alphabetic = in_table "alpha"; u_lingual = in_table "ling" }

(* binary positive -> decimal string *)
let dec_of_pos (p : positive) : string =
  let rec bits p acc = match p with XH -> 1 :: acc | XO q -> bits q (0 :: acc) | XI q -> bits q (1 :: acc) in
  let digits = ref [0] in
  List.iter (fun b ->
      let carry = ref b in
      let ds = List.map (fun d -> let v = d * 2 + !carry in carry := v / 10; v mod 10) !digits in
      digits := if !carry > 0 then ds @ [!carry] else ds) (bits p []);
  String.concat "" (List.rev_map string_of_int !digits)
let dec_of_n = function N0 -> "0" | Npos p -> dec_of_pos p
let dec_of_z = function Z0 -> "0" | Zpos p -> dec_of_pos p | Zneg p -> "-" ^ dec_of_pos p
let str_of_text (t : n list) : string = String.concat "" (List.map (fun c -> String.make 1 (Char.chr (int_of_n c))) t)

let kind_str (k : tkind) : string =
  match k with
  | KWord -> "W"
  | KPunct p ->
      (match p with
       | PQuote tw -> "P:Quote:" ^ (match tw with Some j -> string_of_int (int_of_nat j) | None -> "-")
       | PCurrency c -> "P:Currency:" ^ str_of_text (currency_name c)
       | _ -> "P:" ^ str_of_text (punct_name p))
  | KDecade -> "D"
  | KNumber nb ->
      let lit = (if nb.n_neg then "-" else "") ^ dec_of_n nb.n_mant ^ "e" ^ dec_of_z nb.n_exp10 in
      let bits = Int64.bits_of_float (float_of_string lit) in
      Printf.sprintf "N:%Lx:%d:%d:%s" bits (int_of_nat nb.n_radix) (int_of_nat nb.n_precision)
        (match nb.n_suffix with Some s -> str_of_text (suffix_name s) | None -> "-")
  | KSpace c -> "S:" ^ string_of_int (int_of_nat c)
  | KNewline c -> "NL:" ^ string_of_int (int_of_nat c)
  | KEmail -> "E"
  | KUrl -> "U"
  | KHostname -> "H"
  | KUnlintable -> "X"
  | KParagraphBreak -> "PB"
  | KRegexish -> "R"

let tok_str (t : token) : string =
  Printf.sprintf "%d,%d,%s" (int_of_nat t.tspan.sstart) (int_of_nat t.tspan.send) (kind_str t.tkind_of)
let print_res (r : token list res) : unit =
  match r with
  | Ok ts -> print_endline (String.trim ("O " ^ String.concat " " (List.map tok_str ts)))
  | Panic _ -> print_endline "P"

let kind_of_str (s : string) : tkind =
  match String.split_on_char ':' s with
  | ["W"] -> KWord
  | ["P"; cp] ->
      let c = n_of_int (int_of_string cp) in
      if List.exists (fun q -> int_of_n q = int_of_n c) quote_chars then KPunct (PQuote None)
      else (match punct_from_char c with Some p -> KPunct p | None -> failwith ("not a punctuation character: " ^ cp))
  | ["D"] -> KDecade
  | ["N"; v] -> KNumber { n_neg = false; n_mant = n_of_int (int_of_string v); n_exp10 = Z0; n_suffix = None;
                          n_radix = nat_of_int 10; n_precision = nat_of_int 0 }
  | ["S"; c] -> KSpace (nat_of_int (int_of_string c))
  | ["NL"; c] -> KNewline (nat_of_int (int_of_string c))
  | ["E"] -> KEmail | ["U"] -> KUrl | ["H"] -> KHostname | ["X"] -> KUnlintable | ["PB"] -> KParagraphBreak | ["R"] -> KRegexish
  | _ -> failwith ("bad kind " ^ s)
let tok_of_str (s : string) : token =
  match String.split_on_char ',' s with
  | [a; b; k] -> { tspan = { sstart = nat_of_int (int_of_string a); send = nat_of_int (int_of_string b) }; tkind_of = kind_of_str k }
  | _ -> failwith ("bad token " ^ s)

(* "w ; w ; ..." with w = code points; the empty word is written `e` *)
let known_of_str (s : string) : n list list =
  List.filter_map (fun w ->
      let w = String.trim w in
      if w = "" then None else if w = "e" then Some [] else Some (text_of_line w))
    (String.split_on_char ';' s)

let tag_of_int = function
  | 0 -> TParagraph | 1 -> TLink | 2 -> THeading | 3 -> TItem | 4 -> TTableCell | 5 -> TEmphasis | 6 -> TStrong
  | 7 -> TStrikethrough | 8 -> TCodeBlock | 9 -> TList | _ -> TOtherTag
let rec events_of_ints (l : int list) : mevent list =
  match l with
  | code :: n :: rs :: re :: rest ->
      let ev = match code with
        | 0 -> MStart (tag_of_int n) | 1 -> MEndBreaking | 2 -> MEndOther | 3 -> MSoftBreak | 4 -> MHardBreak
        | 5 -> MCodeLike (nat_of_int n) | 6 -> MText (nat_of_int n) | 7 -> MHtml (nat_of_int n) | _ -> MOther in
      { me_ev = ev; me_rs = nat_of_int rs; me_re = nat_of_int re } :: events_of_ints rest
  | [] -> []
  | _ -> failwith "bad event list"

let () =
  iter_lines (fun l ->
    if String.length l = 0 then print_newline () else
    let body = String.sub l 1 (String.length l - 1) in
    match l.[0] with
    | 'U' ->
        (match List.filter (fun w -> w <> "") (String.split_on_char ' ' body) with
         | name :: ranges ->
             let a = Array.of_list (List.map (fun r ->
                 match String.split_on_char '-' r with
                 | [x; y] -> (int_of_string x, int_of_string y)
                 | _ -> failwith "bad range") ranges) in
             Hashtbl.replace tables name a;
             Printf.printf "U %s %d\n" name (Array.length a)
         | [] -> print_endline "?")
    | 'L' -> print_res (plain_parse (uni_now ()) (text_of_line body))
    | 'D' -> print_res (document_plain (uni_now ()) (text_of_line body))
    | 'T' ->
        (match split_bar body with
         | [src; toks] ->
             let ts = List.map tok_of_str (List.filter (fun w -> w <> "") (String.split_on_char ' ' toks)) in
             print_res (document_passes (text_of_line src) ts)
         | _ -> print_endline "?")
    | 'I' | 'C' ->
        (match split_bar body with
         | [src; toks; known] ->
             let ts = List.map tok_of_str (List.filter (fun w -> w <> "") (String.split_on_char ' ' toks)) in
             let dict = dict_of (known_of_str known) in
             print_res ((if l.[0] = 'I' then isolate_english else collapse_identifiers) dict (text_of_line src) ts)
         | _ -> print_endline "?")
    | 'J' | 'K' ->
        (match split_bar body with
         | [src; known] ->
             let dict = dict_of (known_of_str known) in
             print_res ((if l.[0] = 'J' then document_plain_ie else document_plain_ci) (uni_now ()) dict (text_of_line src))
         | _ -> print_endline "?")
    | 'M' | 'N' ->
        (match split_bar body with
         | [src; evs] ->
             (match List.filter (fun w -> w <> "") (String.split_on_char ' ' src) with
              | ilt :: cps ->
                  let text = List.map (fun w -> n_of_int (int_of_string w)) cps in
                  let evs = events_of_ints (List.map int_of_string (List.filter (fun w -> w <> "") (String.split_on_char ' ' evs))) in
                  let ilt = (ilt = "1") in
                  if l.[0] = 'M' then begin
                    print_string (if md_contractb (encode text) evs then "K1 " else "K0 ");
                    let r = markdown_parse (uni_now ()) ilt text evs in
                    (* Z = md_doc_class of the parser's vector (Model/C02Inert.v): 0 zero-width tokens are breaks,
                       1 inert zero-width Newlines, 2 the remaining class *)
                    (match r with
                     | Ok ts -> Printf.printf "Z%d " (int_of_nat (md_doc_class ts))
                     | _ -> print_string "Z- ");
                    print_res r
                  end else print_res (document_markdown (uni_now ()) ilt text evs)
              | [] -> print_endline "?")
         | _ -> print_endline "?")
    | _ -> print_endline "?")
