(* c07 driver.  stdin: one case per line ("|" separates fields, ";" ops, "," list items; a word is "." followed by
   its code points; all numbers decimal).
     L tb | content cps                 -> load_dict of a file with that text: sorted words
     N path cps                         -> file_dict_name
     H tb | cur | urls | ops            -> a history on the language server; per op output, then the reloaded
                                           dictionaries (user, then one per url)
     W tb | cur | ops                   -> a history on harper_wasm::Linter
   tb  = "c f l1 l2 ..", ..   (char, is_lowercase, to_lowercase)      cur = "dok c1 c2 ..", ..
   urls = "p cps" | "u cps", ..
   ops(H): "s a : c cps" / "s f i : c cps" the dictionary file is written by hand | "a : .w" add user | "f i : .w" add file(url i) | "l i : .t,.t" lint | "r" restart
           | "k a : .w : obs" / "k f i : .w : obs"  crash during the add; obs = what was found on disk afterwards:\n             "n" (no file) | "c cps" (text) | "t cps" (text followed by a cut UTF-8 sequence)
   ops(W): "i : .w,.w" | "l : .t,.t" | "e" *)
let split c s = List.map String.trim (String.split_on_char c s)
let ns s = List.map n_of_int (ints_of_line s)
let word_of s =
  let s = String.trim s in
  if String.length s = 0 || s.[0] <> '.' then failwith ("bad word: " ^ s)
  else ns (String.sub s 1 (String.length s - 1))
let words_of_field s = if String.trim s = "" then [] else List.map word_of (split ',' s)
let show_word w = String.trim (". " ^ line_of_text w)
let icmp a b = compare (List.map int_of_n a) (List.map int_of_n b)
let show_words ws = match ws with [] -> "-" | _ -> String.concat "," (List.map show_word (List.sort icmp ws))
let show_flags fl = match fl with [] -> "-" | _ -> String.concat "" (List.map (fun b -> if b then "1" else "0") fl)

let table s =
  if String.trim s = "" then [] else
  List.map (fun e -> match ints_of_line e with
    | c :: f :: l -> (n_of_int c, (f <> 0, List.map n_of_int l))
    | _ -> failwith "bad table entry") (split ',' s)
let curated s =
  if String.trim s = "" then [] else
  List.map (fun e -> match ints_of_line e with
    | d :: l -> (List.map n_of_int l, d <> 0)
    | _ -> failwith "bad curated entry") (split ',' s)
let url_of s =
  let s = String.trim s in
  let body = ns (String.sub s 1 (String.length s - 1)) in
  if s.[0] = 'p' then FileUrl body else Untitled body
let content_of s =
  let s = String.trim s in
  if s = "n" then None
  else let body = ns (String.sub s 1 (String.length s - 1)) in
       if s.[0] = 'c' then Some (Clean body) else Some (Torn body)


(* an iteration order of the words about to be written that is consistent with what a crash left on disk:
   the complete lines found, in that order, then a word the unterminated tail is a prefix of, then the rest.
   Only a proposal: the model checks that it is a permutation and that the content is then a crash state. *)
let propose (ws : n list list) (obs : content option) : n list list =
  match obs with
  | None -> ws
  | Some (Clean t) | Some (Torn t) ->
      let rec split cur acc = function
        | [] -> (List.rev acc, List.rev cur)
        | c :: r -> if int_of_n c = 10 then split [] (List.rev cur :: acc) r else split (c :: cur) acc r in
      let (full, tail) = split [] [] t in
      let rec take x = function [] -> None | y :: r -> if x = y then Some r else (match take x r with Some r' -> Some (y :: r') | None -> None) in
      let rec go rem acc = function
        | [] -> Some (List.rev acc, rem)
        | l :: r -> (match take l rem with Some rem' -> go rem' (l :: acc) r | None -> None) in
      (match go ws [] full with
       | None -> ws
       | Some (ordered, rem) ->
           let rec is_prefix a b = match a, b with [], _ -> true | x :: a', y :: b' -> x = y && is_prefix a' b' | _ -> false in
           (match List.partition (fun w -> tail <> [] && is_prefix tail w) rem with
            | (w :: others, rest) -> ordered @ (w :: others) @ rest
            | ([], rest) -> ordered @ rest))

let dump tb s urls =
  let at p = match x_words_at tb p s with Some ws -> show_words ws | None -> "E" in
  let per_url u = match file_dict_name u with Some nm -> at (FileP nm) | None -> "~" in
  String.concat " # " (at UserP :: List.map per_url urls)

let history tb cur urls ops =
  let urls_a = Array.of_list urls in
  let st = ref fs_empty in
  let outs = List.map (fun o ->
    let parts = split ':' o in
    let hd = List.hd parts in
    let arg k = List.nth parts k in
    let one op = let (s', out) = x_run tb cur !st [op] in st := s'; out in
    match String.split_on_char ' ' hd with
    | ["a"] -> ignore (one (AddWord (SUser, word_of (arg 1)))); "+"
    | ["f"; i] -> ignore (one (AddWord (SFile urls_a.(int_of_string i), word_of (arg 1)))); "+"
    | ["l"; i] ->
        (match one (LintDoc (urls_a.(int_of_string i), words_of_field (arg 1))) with
         | [fl] -> show_flags fl | _ -> "?")
    | "s" :: sc ->
        (* a dictionary file written by hand *)
        let sc = (match sc with ["a"] -> SUser | ["f"; i] -> SFile urls_a.(int_of_string i) | _ -> failwith "bad scope") in
        st := x_crash_state sc !st (content_of (arg 1)); "s"
    | ["r"] -> ignore (one Restart); "r"
    | "k" :: sc ->
        let sc = (match sc with ["a"] -> SUser | ["f"; i] -> SFile urls_a.(int_of_string i) | _ -> failwith "bad scope") in
        let w = word_of (arg 1) in
        let obs = content_of (arg 2) in
        let order = propose (x_add_words tb sc w !st) obs in
        if x_crash_ok tb order sc w !st obs then (st := x_crash_state sc !st obs; "k1") else "k0"
    | _ -> "?") ops in
  String.concat ";" outs ^ " # " ^ dump tb !st urls

let wasm_history tb cur ops =
  let wops = List.map (fun o ->
    let parts = split ':' o in
    match List.hd parts with
    | "i" -> WImport (words_of_field (List.nth parts 1))
    | "l" -> WLint (words_of_field (List.nth parts 1))
    | "e" -> WExport
    | _ -> failwith "bad wasm op") ops in
  String.concat ";" (List.map (function
    | WONone -> "+"
    | WOFlags fl -> show_flags fl
    | WOWords ws -> show_words ws) (x_wasm tb cur wops))

let () =
  iter_lines (fun l ->
    if String.length l = 0 then print_newline () else
    let body = String.sub l 1 (String.length l - 1) in
    let out =
      try
        match l.[0], split '|' body with
        | 'L', [tb; t] -> show_words (x_load (table tb) (ns t))
        | 'N', [p] -> String.trim ("= " ^ line_of_text (x_name (ns p)))
        | 'H', [tb; cur; urls; ops] ->
            let urls = if String.trim urls = "" then [] else List.map url_of (split ',' urls) in
            let ops = if String.trim ops = "" then [] else split ';' ops in
            history (table tb) (curated cur) urls ops
        | 'W', [tb; cur; ops] ->
            let ops = if String.trim ops = "" then [] else split ';' ops in
            wasm_history (table tb) (curated cur) ops
        | _ -> "?"
      with e -> "EXC " ^ Printexc.to_string e
    in
    print_endline out)
