(* c07 driver.  stdin: one case per line ("|" separates fields, ";" ops, "," list items; a word is "." followed by
   its code points; all numbers decimal).
     L tb | content cps                 -> load_dict of a file with that text: sorted words
     N path cps                         -> file_dict_name ("E" = the URL names no file)
     H tb | cur | urls | ops            -> a history on the language server; per op output, then the reloaded
                                           dictionaries (user, then one per url)
     W tb | cur | ops                   -> a history on harper_wasm::Linter
     C path cps | path cps              -> do the two paths share their file dictionary (C07Collide.x_f20_collide)? "1" / "0"
     S o w w s r                        -> the system calls of one real save on <name>.tmp, in order: accepted by C07Power.x_order_ok? "1" / "0"
     V tb | cur | .u,.u | .f,.f | .i,.i | .t -> [curated; user; file; identifiers] from word lists: "S <spelling> : <dialect ok> <exact>" /
                                           "N <exact>" = entry of the first child with the token's id + the exact test (C07Class.x_view, x_exact)
     K tb | .w | .p,.p                  -> one dictionary after the adds w, p..: does its exact test find w? (C07Class.x_f15_keeps) "1" / "0"
     M tb | .w,.w | .w,.w               -> MergedDictionary::eq of [curated; dictionary of the first word list] and
                                           [curated; dictionary of the second]: "1" / "0"
   tb  = "c f l1 l2 ..", ..   (char, is_lowercase, to_lowercase)      cur = "dok c1 c2 ..", ..
   urls = "p cps" | "u cps", ..
   ops(H): "s a : c cps" / "s f i : c cps" the dictionary file is written by hand | "a : .w [: obs]" add user | "f i : .w [: obs]" add file(url i)
           (obs = the dictionary file as found afterwards, from which the iteration order of the hash map is read off) | "l i : .t,.t" lint | "r" restart
           | "c i : .id,.id : .t,.t" check of a SOURCE document: its identifiers (create_ident_dict), the Word tokens of its comments
           | "u i : S : .id,.id" / "u i : P" the update_document_from_file an add command makes for its (open) document: source / plain
           | "o i L : alts" didOpen with language id L | "g i : alts" didChange | "h i : alts" hidden update | "x i" didClose  (C07Lang);
             alts = "L P .t,.t" / "L S .id,.id ! .t,.t" / "L X": the text as every language in play reads it; output = the reported words, sorted
           | "k a : .w : obs : obstmp" / "k f i : .w : obs : obstmp"  crash during the add; obs / obstmp = what was found
             on disk afterwards in the dictionary file / in its temporary sibling <name>.tmp:
             "n" (no file) | "c cps" (text) | "t cps" (text followed by a cut UTF-8 sequence)
   ops(W): "i : .w,.w" | "l : .t,.t" | "e" *)
let split c s = List.map String.trim (String.split_on_char c s)
let ns s = List.map n_of_int (ints_of_line s)
let word_of s =
  let s = String.trim s in
  if String.length s = 0 || s.[0] <> '.' then failwith ("bad word: " ^ s)
  else ns (String.sub s 1 (String.length s - 1))
let words_of_field s = if String.trim s = "" then [] else List.map word_of (split ',' s)
let show_word w = String.trim (". " ^ line_of_text w)
let icmp a b = compare (List.map int_of_n a) (List.map int_of_n b)
let show_words ws = match ws with [] -> "-" | _ -> String.concat "," (List.map show_word (List.sort icmp ws))
let show_flags fl = match fl with [] -> "-" | _ -> String.concat "" (List.map (fun b -> if b then "1" else "0") fl)

let table s =
  if String.trim s = "" then [] else
  List.map (fun e -> match ints_of_line e with
    | c :: f :: l -> (n_of_int c, (f <> 0, List.map n_of_int l))
    | _ -> failwith "bad table entry") (split ',' s)
let curated s =
  if String.trim s = "" then [] else
  List.map (fun e -> match ints_of_line e with
    | d :: l -> (List.map n_of_int l, d <> 0)
    | _ -> failwith "bad curated entry") (split ',' s)
let url_of s =
  let s = String.trim s in
  let body = ns (String.sub s 1 (String.length s - 1)) in
  if s.[0] = 'p' then FileUrl body else Untitled body
let content_of s =
  let s = String.trim s in
  if s = "n" then None
  else let body = ns (String.sub s 1 (String.length s - 1)) in
       if s.[0] = 'c' then Some (Clean body) else Some (Torn body)


(* an iteration order of the words about to be written that is consistent with what was found on disk
   afterwards (after a completed add: the whole file; after a crash: the dictionary or its temporary sibling,
   possibly cut short): the words whose lines make up the content, in that order, then a word the unterminated
   tail is a prefix of, then the rest.  Found by backtracking (words may contain LF).
   Only a proposal: the model checks that it is a permutation and that the content is then what it computes. *)
let propose (ws : n list list) (obs : content option) : n list list =
  match obs with
  | None -> ws
  | Some (Clean t) | Some (Torn t) ->
      let rec strip a b = match a, b with
        | [], _ -> Some b
        | x :: a', y :: b' -> if x = y then strip a' b' else None
        | _ :: _, [] -> None in
      let lf = n_of_int 10 in
      if not (List.exists (List.exists (fun c -> c = lf)) ws) then begin
        (* no word contains LF: the complete lines of the content are the words, in order (linear time) *)
        let rec split cur acc = function
          | [] -> (List.rev acc, List.rev cur)
          | c :: r -> if c = lf then split [] (List.rev cur :: acc) r else split (c :: cur) acc r in
        let (full, tail) = split [] [] t in
        let avail = Hashtbl.create 64 in
        List.iter (fun w -> Hashtbl.replace avail w (1 + (try Hashtbl.find avail w with Not_found -> 0))) ws;
        let ok = ref true in
        List.iter (fun l -> match Hashtbl.find_opt avail l with
                            | Some k when k > 0 -> Hashtbl.replace avail l (k - 1)
                            | _ -> ok := false) full;
        if not !ok then ws else begin
          (* the words not used by the complete lines, in the model's order; the one the tail starts first *)
          let rem = List.filter (fun w -> match Hashtbl.find_opt avail w with
                                          | Some k when k > 0 -> Hashtbl.replace avail w (k - 1); true
                                          | _ -> false) ws in
          let rec first_with pre = function
            | [] -> None
            | w :: r -> (match strip tail w with Some _ -> Some (w :: List.rev_append pre r) | None -> first_with (w :: pre) r) in
          let rem = if tail = [] then rem else (match first_with [] rem with Some r -> r | None -> rem) in
          full @ rem
        end
      end else begin
        (* some word contains LF (malformed stream, short lists): backtracking *)
        let rec picks pre = function
          | [] -> []
          | x :: r -> (x, List.rev_append pre r) :: picks (x :: pre) r in
        let rec go rem t acc =
          match rem with
          | [] -> if t = [] then Some (List.rev acc) else None
          | _ ->
              if t = [] then Some (List.rev_append acc rem) else
              let rec try_ = function
                | [] -> None
                | (w, rest) :: more ->
                    (match strip (w @ [lf]) t with
                     | Some t' -> (match go rest t' (w :: acc) with Some r -> Some r | None -> try_ more)
                     | None -> try_ more) in
              (match try_ (picks [] rem) with
               | Some r -> Some r
               | None ->
                   (* the tail is an unfinished line *)
                   let rec tail_ = function
                     | [] -> None
                     | (w, rest) :: more -> (match strip t (w @ [lf]) with Some _ -> Some (List.rev_append acc (w :: rest)) | None -> tail_ more) in
                   tail_ (picks [] rem)) in
        if List.length ws > 40 then ws else (match go ws t [] with Some r -> r | None -> ws)
      end

let dump tb s urls =
  let at p = match x_words_at tb p s with Some ws -> show_words ws | None -> "E" in
  let per_url u = match file_dict_name u with Some nm -> at (FileP nm) | None -> "~" in
  String.concat " # " (at UserP :: List.map per_url urls)

(* "L P .t,.t" | "L S .id,.id ! .t,.t" | "L X", separated by "/" : the text of a check as each language in play reads it *)
let alts_of s =
  if String.trim s = "" then [] else
  List.map (fun a ->
    let a = String.trim a in
    let sp = String.index a ' ' in
    let l = int_of_string (String.sub a 0 sp) in
    let rest = String.trim (String.sub a sp (String.length a - sp)) in
    let body = String.trim (String.sub rest 1 (String.length rest - 1)) in
    let alt = (match rest.[0] with
      | 'P' -> APlain (words_of_field body)
      | 'S' -> (match split '!' body with
                | [ids; toks] -> ASrc (words_of_field ids, words_of_field toks)
                | _ -> failwith "bad source alternative")
      | _ -> ANone) in
    (nat_of_int l, alt)) (split '/' s)

let history tb cur urls ops =
  let urls_a = Array.of_list urls in
  let st = ref fs_empty in
  let cache = ref [] in
  let lm = ref [] in
  let l0 = nat_of_int 0 in
  let outs = List.map (fun o ->
    let parts = split ':' o in
    let hd = List.hd parts in
    let arg k = List.nth parts k in
    (* the server with per-document state: dictionaries incl. identifiers (C07Ident) and the stored language (C07Lang.lstep;
       C07_lang_transparent).  The old operations are checks in the one language (0) of their history. *)
    let one_l order lop = let (((s', c'), m'), out) = x_lstep tb cur order ((!st, !cache), !lm) lop in st := s'; cache := c'; lm := m'; out in
    let one lop = one_l [] lop in
    (* a completed add: the content found in the dictionary file afterwards (optional 3rd field) fixes the order *)
    let add sc w = 
      let order = (match parts with [_; _; o] -> propose (x_add_words tb sc w !st) (content_of o) | _ -> []) in
      ignore (one_l order (LAdd (sc, w))); "+" in
    let url i = urls_a.(int_of_string i) in
    (* the words reported in a check, read in the language in force *)
    let check u decl a lop =
      let toks = x_eff_toks !lm u decl a in
      show_words (reported toks (one lop)) in
    match String.split_on_char ' ' hd with
    | ["a"] -> add SUser (word_of (arg 1))
    | ["f"; i] -> add (SFile (url i)) (word_of (arg 1))
    | ["l"; i] -> show_flags (one (LOpen (url i, l0, [(l0, APlain (words_of_field (arg 1)))])))
    | ["c"; i] -> show_flags (one (LOpen (url i, l0, [(l0, ASrc (words_of_field (arg 1), words_of_field (arg 2)))])))
    | ["u"; i] ->
        let alt = (match arg 1 with "S" -> ASrc (words_of_field (arg 2), []) | _ -> APlain []) in
        ignore (one (LHidden (url i, [(l0, alt)]))); "u"
    | ["o"; i; l] -> let a = alts_of (arg 1) and l = nat_of_int (int_of_string l) in check (url i) (Some l) a (LOpen (url i, l, a))
    | ["g"; i] -> let a = alts_of (arg 1) in check (url i) None a (LChange (url i, a))
    | ["h"; i] -> ignore (one (LHidden (url i, alts_of (arg 1)))); "u"
    | ["x"; i] -> ignore (one (LClose (url i))); "x"
    | "s" :: sc ->
        (* a dictionary file written by hand *)
        let sc = (match sc with ["a"] -> SUser | ["f"; i] -> SFile urls_a.(int_of_string i) | _ -> failwith "bad scope") in
        (match content_of (arg 1) with Some c -> st := x_seed_state sc !st c | None -> ()); "s"
    | ["r"] -> ignore (one LRestart); "r"
    | "k" :: sc ->
        let sc = (match sc with ["a"] -> SUser | ["f"; i] -> SFile urls_a.(int_of_string i) | _ -> failwith "bad scope") in
        let w = word_of (arg 1) in
        let obs = content_of (arg 2) in
        let obstmp = content_of (arg 3) in
        (* the complete new text, if it is anywhere, is in the dictionary file; otherwise the sibling shows how far the write got *)
        let hint = (match obs, obstmp with _, Some _ -> obstmp | _, None -> obs) in
        let try_order o = x_crash_ok tb o sc w !st obs obstmp in
        let o1 = propose (x_add_words tb sc w !st) hint in
        let o2 = propose (x_add_words tb sc w !st) obs in
        (* the process died: the next operation talks to a new server (no document state) *)
        cache := []; lm := [];
        if try_order o1 || try_order o2 then (st := x_crash_state sc !st obs obstmp; "k1") else "k0"
    | _ -> "?") ops in
  String.concat ";" outs ^ " # " ^ dump tb !st urls

let wasm_history tb cur ops =
  let wops = List.map (fun o ->
    let parts = split ':' o in
    match List.hd parts with
    | "i" -> WImport (words_of_field (List.nth parts 1))
    | "l" -> WLint (words_of_field (List.nth parts 1))
    | "e" -> WExport
    | _ -> failwith "bad wasm op") ops in
  String.concat ";" (List.map (function
    | WONone -> "+"
    | WOFlags fl -> show_flags fl
    | WOWords ws -> show_words ws) (x_wasm tb cur wops))

let () =
  iter_lines (fun l ->
    if String.length l = 0 then print_newline () else
    let body = String.sub l 1 (String.length l - 1) in
    let out =
      try
        match l.[0], split '|' body with
        | 'L', [tb; t] -> show_words (x_load (table tb) (ns t))
        | 'N', [p] -> (match x_name (ns p) with Some nm -> String.trim ("= " ^ line_of_text nm) | None -> "E")
        | 'H', [tb; cur; urls; ops] ->
            let urls = if String.trim urls = "" then [] else List.map url_of (split ',' urls) in
            let ops = if String.trim ops = "" then [] else split ';' ops in
            history (table tb) (curated cur) urls ops
        | 'M', [tb; a; b] -> if x_merge_eq (table tb) (words_of_field a) (words_of_field b) then "1" else "0"
        | 'C', [p; q] -> if x_f20_collide (ns p) (ns q) then "1" else "0"
        | 'S', [t] ->
            let sc = List.filter_map (fun x -> match x with "o" -> Some SOpen | "w" -> Some SWrite | "s" -> Some SFsync | "r" -> Some SRename | _ -> None)
                       (String.split_on_char ' ' (String.trim t)) in
            if x_order_ok sc then "1" else "0"
        | 'V', [tb; cur; us; fs; ids; t] ->
            (* the entry the first child with the token's id holds, and the exact test over all children (C07Class) *)
            let tb = table tb and cur = curated cur in
            let us = words_of_field us and fs = words_of_field fs and ids = words_of_field ids and t = word_of t in
            let ex = if x_exact tb cur us fs ids t then "1" else "0" in
            (match x_view tb cur us fs ids t with
             | Some (sp, dok) -> "S " ^ show_word sp ^ " : " ^ (if dok then "1" else "0") ^ " " ^ ex
             | None -> "N " ^ ex)
        | 'K', [tb; w; post] -> if x_f15_keeps (table tb) (word_of w) (words_of_field post) then "1" else "0"
        | 'W', [tb; cur; ops] ->
            let ops = if String.trim ops = "" then [] else split ';' ops in
            wasm_history (table tb) (curated cur) ops
        | _ -> "?"
      with e -> "EXC " ^ Printexc.to_string e
    in
    print_endline out)
