(* c11 driver.  stdin: one case per line -> stdout one result per line.  Keys are hex strings of their UTF-8
   bytes ("-" = empty key).  A config is  key=v,key=v  with v in 1/0/n  ("-" = empty config).
     C <nregs> <probe keys, comma separated> ; op ; op ...     config operations on a register bank
          ops:  s i K b | u i K | i i K b | c i | m i j | w i j (wasm set_lint_config) | f i | k i | d i | y i j | j i
          ->  {cfg} {cfg} ... | bits bits ...      (is_rule_enabled of every probe key, per register)
     J <hex of a JSON text>        -> N | {cfg}                       (serde_json::from_str::<LintGroupConfig>)
     P <cfg>                       -> hex of serde_json::to_string
     H <cfg>                       -> the Hasher::write calls, hex chunks separated by '.'
     W <hex of a JSON text>        -> N | B | {cfg}                   (from_str::<Value>, then from_value::<LintGroupConfig>)
     V <hex of a settings text>    -> N | O | B | {cfg}               (from_str::<Value>, then Config::from_lsp_config(..).lint_config;
                                                                       O = another key from_lsp_config reads is present)
     T                             -> {curated cfg} | iter_keys of new_curated, comma separated
     U                             -> the same, from the EXECUTION of the generated statements (C11Curated.new_curated_model)
     K adds # docs # steps         one long-lived group, its chunk cache warm: a history of config ops and lint calls
          adds: a K d0lints|d1lints.. ; p K c0/c1/..|c0/c1/..   docs: start:keyid:ntoks,...|...   steps: l i | g <cop without register>
          ->  per lint step  lints|calls  or  P ,  joined by " ; "   (calls = pattern evaluations = sum over MISSED chunks of
              its token count x the number of enabled pattern rules)
     Q adds # docs # steps         the same with the chunk key CONCRETE (C11ChunkKey.run_token_history over C05's Cache.v)
          adds: a K d0lints|d1lints.. ; p K <word: code points joined by '.'> <tag>
          docs: <source: code points joined by '.', "-" = empty> ! <chunk>/<chunk>/..  ("~" = no chunk; chunk = kind:start:end,..  "-" = empty slice)
                joined by " | ";  kind = 2*id + (1 if is_word)
          ->  as K (the token hash is an interning table in this driver: injective)
     L <ngroups> ; gop ; gop ... # idx:start,idx:n,...          build groups, then groups[0].lint(doc)
          gops: a i K lints | p i K lints/lints/... | m i j | A i v | g i <cop without register>
          lints: s-e-id,s-e-id  ("-" = none)
          ->  {cfg} | keys | P   or   {cfg} | keys | s-e-id,...  *)
let hex_digit c = match c with
  | '0'..'9' -> Char.code c - 48 | 'a'..'f' -> Char.code c - 87 | 'A'..'F' -> Char.code c - 55 | _ -> failwith "hex"
let key_of_hex (s : string) : n list =
  if s = "-" || s = "" then [] else
  let rec go i = if i >= String.length s then []
    else n_of_int (hex_digit s.[i] * 16 + hex_digit s.[i + 1]) :: go (i + 2) in go 0
let hex_of_key (k : n list) : string =
  if k = [] then "-" else String.concat "" (List.map (fun b -> Printf.sprintf "%02x" (int_of_n b)) k)
let words s = List.filter (fun w -> w <> "") (String.split_on_char ' ' s)
let commas s = if s = "-" || s = "" then [] else String.split_on_char ',' s
let val_of = function "1" -> Some true | "0" -> Some false | _ -> None
let str_of_val = function Some true -> "1" | Some false -> "0" | None -> "n"
let cfg_of_string (s : string) =
  List.map (fun e -> match String.split_on_char '=' e with
    | [k; v] -> (key_of_hex k, val_of v) | _ -> failwith "cfg") (commas s)
let string_of_cfg c =
  "{" ^ String.concat "," (List.map (fun (k, v) -> hex_of_key k ^ "=" ^ str_of_val v) c) ^ "}"
let nat s = nat_of_int (int_of_string s)
let bool_of s = s = "1"

(* the f64 range check of a grammatical JSON number literal (serde_json: NumberOutOfRange when the correctly rounded
   value is infinite): the model's parameter num_fin; strtod rounds correctly too *)
let num_fin (lit : n list) : bool =
  let s = String.concat "" (List.map (fun b -> String.make 1 (Char.chr (int_of_n b))) lit) in
  match float_of_string_opt s with Some f -> Float.is_finite f | None -> false

let cop_of (w : string list) : cop = match w with
  | ["s"; i; k; b] -> CSet (nat i, key_of_hex k, bool_of b)
  | ["u"; i; k] -> CUnset (nat i, key_of_hex k)
  | ["i"; i; k; b] -> CSetIfUnset (nat i, key_of_hex k, bool_of b)
  | ["c"; i] -> CClear (nat i)
  | ["m"; i; j] -> CMerge (nat i, nat j)
  | ["w"; i; j] -> CWasmSet (nat i, nat j)
  | ["f"; i] -> CFill (nat i)
  | ["k"; i] -> CCurated (nat i)
  | ["d"; i] -> CDefault (nat i)
  | ["y"; i; j] -> CCopy (nat i, nat j)
  | ["j"; i] -> CJson (nat i)
  | _ -> failwith ("cop: " ^ String.concat " " w)

let lint_of (s : string) : nat glint = match String.split_on_char '-' s with
  | [a; b; id] -> { gl_span = { sstart = nat a; send = nat b }; gl_body = nat id }
  | _ -> failwith "lint"
let lints_of s = List.map lint_of (commas s)
let string_of_lints ls =
  String.concat "," (List.map (fun l -> Printf.sprintf "%d-%d-%d" (int_of_nat l.gl_span.sstart) (int_of_nat l.gl_span.send) (int_of_nat l.gl_body)) ls)

let gop_of (w : string list) : gop = match w with
  | ["a"; i; k; ls] -> GAdd (nat i, key_of_hex k, lints_of ls)
  | ["p"; i; k; pcs] -> GAddPattern (nat i, key_of_hex k, List.map lints_of (String.split_on_char '/' pcs))
  | ["m"; i; j] -> GMerge (nat i, nat j)
  | ["A"; i; v] -> GSetAll (nat i, val_of v)
  | "g" :: i :: (c :: rest) -> GCfg (nat i, cop_of (c :: "0" :: rest))
  | _ -> failwith ("gop: " ^ String.concat " " w)

let chunk_of (s : string) = match String.split_on_char ':' s with
  | [i; "n"] -> (nat i, None)
  | [i; st] -> (nat i, Some (nat st))
  | _ -> failwith "chunk"

let () =
  iter_lines (fun l ->
    if String.length l = 0 then print_newline () else
    let body = String.trim (String.sub l 1 (String.length l - 1)) in
    try
      match l.[0] with
      | 'C' ->
          (match String.split_on_char ';' body with
           | hd :: ops ->
               let (n, probes) = match words hd with
                 | [n; p] -> (nat n, List.map key_of_hex (commas p))
                 | [n] -> (nat n, [])
                 | _ -> failwith "C head" in
               let ops = List.filter_map (fun o -> match words o with [] -> None | w -> Some (cop_of w)) ops in
               let regs = run_cops n ops in
               let dumps = String.concat " " (List.map string_of_cfg regs) in
               let bits = String.concat " " (List.map (fun c ->
                 "b" ^ String.concat "" (List.map (fun k -> if is_rule_enabled c k then "1" else "0") probes)) regs) in
               print_endline (dumps ^ " | " ^ bits)
           | [] -> print_endline "?")
      | 'J' ->
          (match parse_cfg (key_of_hex body) with
           | None -> print_endline "N"
           | Some c -> print_endline (string_of_cfg c))
      | 'W' ->
          (match parse_json num_fin (key_of_hex body) with
           | None -> print_endline "N"
           | Some v -> (match from_value v with None -> print_endline "B" | Some c -> print_endline (string_of_cfg c)))
      | 'V' ->
          (match parse_json num_fin (key_of_hex body) with
           | None -> print_endline "N"
           | Some v -> (match lsp_lint_config lsp_other_keys v with
                        | LBail -> print_endline "B" | LOther -> print_endline "O" | LCfg c -> print_endline (string_of_cfg c)))
      | 'P' -> print_endline (hex_of_key (print_cfg (cfg_of_string body)))
      | 'H' -> print_endline (String.concat "." (List.map hex_of_key (hash_calls (cfg_of_string body))))
      | 'T' -> print_endline (string_of_cfg curated_cfg ^ " | " ^ String.concat "," (List.map hex_of_key curated_names))
      | 'U' -> print_endline (string_of_cfg program_cfg ^ " | " ^ String.concat "," (List.map hex_of_key program_names))
      | 'K' ->
          (match String.split_on_char '#' body with
           | [adds; docs; steps] ->
               let semis x = List.filter_map (fun o -> match words o with [] -> None | w -> Some w) (String.split_on_char ';' x) in
               let bars x = List.map String.trim (String.split_on_char '|' x) in
               let adds = List.map (fun w -> match w with
                 | ["a"; k; per] -> AStruct (key_of_hex k, List.map lints_of (bars per))
                 | ["p"; k; per] -> APattern (key_of_hex k, List.map (fun d -> List.map lints_of (String.split_on_char '/' d)) (bars per))
                 | _ -> failwith "hadd") (semis adds) in
               let ntoks = Hashtbl.create 16 in
               let docs = List.mapi (fun di dspec ->
                 let chs = List.mapi (fun ci c -> match String.split_on_char ':' c with
                   | [st; kid; nt] ->
                       Hashtbl.replace ntoks (int_of_string kid) (int_of_string nt);
                       ((nat_of_int ci, (if st = "n" then None else Some (nat st))), nat kid)
                   | _ -> failwith "hchunk") (commas dspec) in
                 (nat_of_int di, chs)) (bars (String.trim docs)) in
               let steps = List.map (fun w -> match w with
                 | ["l"; i] -> SLint (nat i)
                 | "g" :: c :: rest -> SCfg (cop_of (c :: "0" :: rest))
                 | _ -> failwith "hstep") (semis steps) in
               let outs = run_history adds docs steps in
               print_endline (String.concat " ; " (List.map (fun ((r, missed), en) -> match r with
                 | Panic _ -> "P"
                 | Ok ls ->
                     let toks = List.fold_left (fun a k -> a + (try Hashtbl.find ntoks (int_of_nat k) with Not_found -> 0)) 0 missed in
                     Printf.sprintf "%s|%d" (string_of_lints ls) (toks * int_of_nat en)) outs))
           | _ -> print_endline "?")
      | 'Q' ->
          (match String.split_on_char '#' body with
           | [adds; docs; steps] ->
               let semis x = List.filter_map (fun o -> match words o with [] -> None | w -> Some w) (String.split_on_char ';' x) in
               let bars x = List.map String.trim (String.split_on_char '|' x) in
               let cps x = if x = "-" || x = "" then [] else List.map (fun c -> n_of_int (int_of_string c)) (String.split_on_char '.' x) in
               let adds = List.map (fun w -> match w with
                 | ["a"; k; per] -> QStruct (key_of_hex k, List.map lints_of (bars per))
                 | ["p"; k; word; tag] -> QPattern (key_of_hex k, cps word, nat tag)
                 | _ -> failwith "qadd") (semis adds) in
               let tok_of t = match String.split_on_char ':' t with
                 | [k; a; b] -> (n_of_int (int_of_string k), { sstart = nat a; send = nat b })
                 | _ -> failwith "qtok" in
               let srcs = List.map (fun dspec -> match String.split_on_char '!' dspec with
                 | [src; chs] ->
                     let chs = String.trim chs in
                     let chunks = if chs = "~" then [] else
                       List.map (fun c -> List.map tok_of (commas (String.trim c))) (String.split_on_char '/' chs) in
                     (cps (String.trim src), chunks)
                 | _ -> failwith "qdoc") (bars (String.trim docs)) in
               let steps = List.map (fun w -> match w with
                 | ["l"; i] -> SLint (nat i)
                 | "g" :: c :: rest -> SCfg (cop_of (c :: "0" :: rest))
                 | _ -> failwith "hstep") (semis steps) in
               (* the token hash: an interning table (injective); id -> number of tokens, for the evaluation count *)
               let ids : (string, int) Hashtbl.t = Hashtbl.create 16 in
               let lens : (int, int) Hashtbl.t = Hashtbl.create 16 in
               let tok_hash (ts : n tok list) : n =
                 let s = String.concat "," (List.map (fun (k, sp) ->
                   Printf.sprintf "%d:%d:%d" (int_of_n k) (int_of_nat sp.sstart) (int_of_nat sp.send)) ts) in
                 let id = match Hashtbl.find_opt ids s with
                   | Some i -> i
                   | None -> let i = Hashtbl.length ids in Hashtbl.replace ids s i; Hashtbl.replace lens i (List.length ts); i in
                 n_of_int id in
               (match run_token_history tok_hash adds srcs steps with
                | Panic _ -> print_endline "P!"
                | Ok outs ->
                    print_endline (String.concat " ; " (List.map (fun ((r, missed), en) -> match r with
                      | Panic _ -> "P"
                      | Ok ls ->
                          let toks = List.fold_left (fun a (_, h) -> a + (try Hashtbl.find lens (int_of_n h) with Not_found -> 0)) 0 missed in
                          Printf.sprintf "%s|%d" (string_of_lints ls) (toks * int_of_nat en)) outs)))
           | _ -> print_endline "?")
      | 'L' ->
          (match String.split_on_char '#' body with
           | [front; chs] ->
               (match String.split_on_char ';' front with
                | hd :: ops ->
                    let n = nat (String.trim hd) in
                    let ops = List.filter_map (fun o -> match words o with [] -> None | w -> Some (gop_of w)) ops in
                    let chunks = List.map chunk_of (commas (String.trim chs)) in
                    let ((cfg, keys), r) = run_dispatch n ops chunks in
                    let out = match r with Ok ls -> string_of_lints ls | Panic _ -> "P" in
                    print_endline (String.trim (string_of_cfg cfg ^ " | " ^ String.concat "," (List.map hex_of_key keys) ^ " | " ^ out))
                | [] -> print_endline "?")
           | _ -> print_endline "?")
      | _ -> print_endline "?"
    with Failure m -> print_endline ("?" ^ m) | Invalid_argument m -> print_endline ("?" ^ m))
