(* c18 driver.  stdin: one case per line, five '|'-separated fields
     src cps | tokens: s e kind meta ... | chars: c islower n l1..ln m u1..um ... (to_lowercase, to_uppercase) | canon: key > - ; key > = cps ; ... | meta: key > m ; ...
   meta code: 0 = None, otherwise 1 + 2*proper + 4*preposition + 8*determiner.
   stdout: "P" (the model panics), "O cps" (the title-cased hull), "?" (a fact the model asked for was not dumped). *)
let meta_of_int (m : int) : wmeta option =
  if m = 0 then None
  else let v = m - 1 in
    Some { m_proper = (v land 1 = 1); m_prep = (v land 2 = 2); m_det = (v land 4 = 4) }
let rec toks_of = function
  | s :: e :: k :: m :: t -> (((nat_of_int s, nat_of_int e), nat_of_int k), meta_of_int m) :: toks_of t
  | _ -> []
let rec take n l = if n = 0 then [] else match l with [] -> [] | h :: t -> h :: take (n - 1) t
let rec drop n l = if n = 0 then l else match l with [] -> [] | _ :: t -> drop (n - 1) t
let rec chars_of = function
  | c :: isl :: n :: t ->
      let l = take n t in
      (match drop n t with
       | m :: t2 ->
           (n_of_int c, (isl = 1, (List.map n_of_int l, List.map n_of_int (take m t2)))) :: chars_of (drop m t2)
       | [] -> [])
  | _ -> []
let split_on c s = List.map String.trim (String.split_on_char c s)
let entries (s : string) : (string * string) list =
  List.filter_map (fun e -> if e = "" then None else
    match split_on '>' e with [k; v] -> Some (k, v) | _ -> None) (split_on ';' s)
let () =
  iter_lines (fun l ->
    match split_bar l with
    | [src; toks; chars; canon; meta] ->
        let src = text_of_line src in
        let toks = toks_of (ints_of_line toks) in
        let chars = chars_of (ints_of_line chars) in
        let canon = List.map (fun (k, v) ->
          (text_of_line k,
           if v = "-" then None
           else Some (text_of_line (String.sub v 1 (String.length v - 1))))) (entries canon) in
        let meta = List.map (fun (k, v) -> (text_of_line k, meta_of_int (int_of_string v))) (entries meta) in
        if run_missing_keys chars canon meta toks src then print_endline "?"
        else (match run_title_case chars canon meta toks src with
              | Panic _ -> print_endline "P"
              | Ok t -> print_endline (String.trim ("O " ^ line_of_text t)))
    | _ -> print_endline "?")
