(* c18 driver.  Two kinds of cases: make_title_case on a GIVEN token list (below), and the end-to-end cases
   U / STR / TOK (C18Str.v: the model lexes, condenses and attaches metadata itself; see further down).
   Token-list case: stdin one case per line, five '|'-separated fields
     src cps | tokens: s e kind meta ... | chars: c islower n l1..ln m u1..um ... (to_lowercase, to_uppercase) | canon: key > - ; key > = cps ; ... | meta: key > m ; ...
   meta code: 0 = None, otherwise 1 + 2*proper + 4*preposition + 8*determiner.
   stdout: "P" (the model panics), "O cps" (the title-cased hull), "?" (a fact the model asked for was not dumped). *)
let meta_of_int (m : int) : wmeta option =
  if m = 0 then None
  else let v = m - 1 in
    Some { m_proper = (v land 1 = 1); m_prep = (v land 2 = 2); m_det = (v land 4 = 4) }
let rec toks_of = function
  | s :: e :: k :: m :: t -> (((nat_of_int s, nat_of_int e), nat_of_int k), meta_of_int m) :: toks_of t
  | _ -> []
let rec take n l = if n = 0 then [] else match l with [] -> [] | h :: t -> h :: take (n - 1) t
let rec drop n l = if n = 0 then l else match l with [] -> [] | _ :: t -> drop (n - 1) t
let rec chars_of = function
  | c :: isl :: n :: t ->
      let l = take n t in
      (match drop n t with
       | m :: t2 ->
           (n_of_int c, (isl = 1, (List.map n_of_int l, List.map n_of_int (take m t2)))) :: chars_of (drop m t2)
       | [] -> [])
  | _ -> []
let split_on c s = List.map String.trim (String.split_on_char c s)
let entries (s : string) : (string * string) list =
  List.filter_map (fun e -> if e = "" then None else
    match split_on '>' e with [k; v] -> Some (k, v) | _ -> None) (split_on ';' s)
(* ---- end-to-end cases (C18Str.v): Unicode range tables as in the c02 driver ----
     U <name> lo-hi lo-hi ...                  load a table (ws | num | alpha | ling); prints "U <name> <#ranges>"
     STR | src cps | chars | canon | meta      make_title_case_str  -> "O cps" | "P" | "?"
     CLS | src cps                             "C <plain_text> <dotted_text> <alnum_text>" (classes of the theorems, as 0/1)
     TOK | src cps | meta                      Document::new_from_vec(.., PlainEnglish, dict).get_tokens()
                                               -> "T s e kind meta ..." | "P" *)
let tables : (string, (int * int) array) Hashtbl.t = Hashtbl.create 8
let in_table name =
  fun (c : n) ->
    match Hashtbl.find_opt tables name with
    | None -> false
    | Some a ->
        let x = int_of_n c in
        let lo = ref 0 and hi = ref (Array.length a - 1) and found = ref false in
        while not !found && !lo <= !hi do
          let mid = (!lo + !hi) / 2 in
          let (l, h) = a.(mid) in
          if x < l then hi := mid - 1 else if x > h then lo := mid + 1 else found := true
        done;
        !found
let uni_now () = { u_whitespace = in_table "ws"; u_numeric = in_table "num"; u_alphabetic = in_table "alpha"; u_lingual = in_table "ling" }
let int_of_meta (m : wmeta option) : int =
  match m with
  | None -> 0
  | Some md -> 1 + (if md.m_proper then 1 else 0) + (if md.m_prep then 2 else 0) + (if md.m_det then 4 else 0)
let canon_of s = List.map (fun (k, v) ->
  (text_of_line k,
   if v = "-" then None
   else Some (text_of_line (String.sub v 1 (String.length v - 1))))) (entries s)
let meta_of s = List.map (fun (k, v) -> (text_of_line k, meta_of_int (int_of_string v))) (entries s)

let () =
  iter_lines (fun l ->
    if String.length l > 2 && l.[0] = 'U' && l.[1] = ' ' then
      (match List.filter (fun w -> w <> "") (String.split_on_char ' ' (String.sub l 2 (String.length l - 2))) with
       | name :: ranges ->
           let a = Array.of_list (List.map (fun r ->
               match String.split_on_char '-' r with
               | [x; y] -> (int_of_string x, int_of_string y)
               | _ -> failwith "bad range") ranges) in
           Hashtbl.replace tables name a;
           Printf.printf "U %s %d\n" name (Array.length a)
       | [] -> print_endline "?")
    else
    match split_bar l with
    | ["STR"; src; chars; canon; meta] ->
        let src = text_of_line src in
        let chars = chars_of (ints_of_line chars) in
        let canon = canon_of canon and meta = meta_of meta in
        let u = uni_now () in
        if run_str_missing_keys u chars canon meta src then print_endline "?"
        else (match run_title_case_str u chars canon meta src with
              | Panic _ -> print_endline "P"
              | Ok t -> print_endline (String.trim ("O " ^ line_of_text t)))
    | ["CLS"; src] ->
        (* the classes of the theorems (C18LexStable.plain_text, C18LexDots.dotted_text, C18LexAlnum.alnum_text) on the dumped tables *)
        let u = uni_now () and t = text_of_line src in
        Printf.printf "C %d %d %d\n" (if plain_text u t then 1 else 0) (if dotted_text u t then 1 else 0)
          (if alnum_text u t then 1 else 0)
    | ["TOK"; src; meta] ->
        (match run_document_tokens (uni_now ()) (meta_of meta) (text_of_line src) with
         | Panic _ -> print_endline "P"
         | Ok ts ->
             print_endline (String.trim ("T " ^ String.concat " " (List.map (fun (((s, e), k), m) ->
               Printf.sprintf "%d %d %d %d" (int_of_nat s) (int_of_nat e) (int_of_nat k) (int_of_meta m)) ts))))
    | [src; toks; chars; canon; meta] ->
        let src = text_of_line src in
        let toks = toks_of (ints_of_line toks) in
        let chars = chars_of (ints_of_line chars) in
        let canon = List.map (fun (k, v) ->
          (text_of_line k,
           if v = "-" then None
           else Some (text_of_line (String.sub v 1 (String.length v - 1))))) (entries canon) in
        let meta = List.map (fun (k, v) -> (text_of_line k, meta_of_int (int_of_string v))) (entries meta) in
        if run_missing_keys chars canon meta toks src then print_endline "?"
        else (match run_title_case chars canon meta toks src with
              | Panic _ -> print_endline "P"
              | Ok t -> print_endline (String.trim ("O " ^ line_of_text t)))
    | _ -> print_endline "?")
