(* conv_nat.ml — textually appended after an extracted model: int <-> extracted Peano nat *)
let rec nat_of_int (n : int) : nat = if n <= 0 then O else S (nat_of_int (n - 1))
let int_of_nat (n : nat) : int = let rec go acc = function O -> acc | S m -> go (acc + 1) m in go 0 n
let ints_of_line (s : string) : int list =
  List.filter_map (fun w -> if w = "" then None else Some (int_of_string w)) (String.split_on_char ' ' s)
let rec iter_lines (f : string -> unit) : unit =
  match input_line stdin with
  | l -> f l; iter_lines f
  | exception End_of_file -> ()
let split_bar (s : string) : string list = List.map String.trim (String.split_on_char '|' s)
