(* c12 driver.  stdin: one case per line.
     I c s e c s e ...                  -> iter_chunks / iter_sentences / iter_paragraphs (chunk lengths), hull of
                                           every chunk, hull of the whole list:
                                           "C l.. | S l.. | P l.. | H s e,s e,none | A s e"   or PANIC
     G reset | c s e c s e ... | cps    -> one LintGroup::lint call (sentence-schema struct rule + any-word pattern
                                           rule) on these tokens and this source, chunk cache carried over from the
                                           previous G lines unless reset = 1:  "L s e id,s e id"  / "L -" / PANIC
     R c s e c s e ...                  -> LongSentences::lint on these tokens: "R s e,s e" / "R -" / PANIC
     T cps                              -> Document::new_plain_english(text).tokens as kind classes (ASCII text; C02's
                                           lexer + the nine passes, Model/C12Doc.run_doc): "T c s e w c s e w ..." with
                                           w = twin_loc + 1 (0 = none) / "T -" / PANIC
     L cps                              -> PlainEnglish.parse(text) likewise (run_raw): "L c s e w ..."
     W c s e w c s e w ...              -> UnclosedQuotes::lint on these tokens (w = twin_loc + 1) and, for every guarded
                                           window body of Tables_c12rules.window_guards in table order, the windows that
                                           pass the kind guard (Model/C12Windows.run_rules): "W s e,s e | s e | - | ..."
     K c s e u c s e u ... | cps        -> CommaFixes::lint on these tokens (u = 1: TokenKind::Unlintable) and this source
                                           (Model/C12Comma.run_comma): "K s e id,s e id" / "K -" *)
let rec quads_in = function
  | c :: s :: e :: w :: t -> (nat_of_int c, (nat_of_int s, (nat_of_int e, nat_of_int w))) :: quads_in t
  | _ -> []
let spans_str l =
  if l = [] then "-" else String.concat "," (List.map (fun (s, e) -> Printf.sprintf "%d %d" (int_of_nat s) (int_of_nat e)) l)
let quads tag r =
  match r with
  | None -> print_endline "PANIC"
  | Some [] -> print_endline (tag ^ " -")
  | Some ts ->
      print_endline (tag ^ String.concat "" (List.map (fun (c, (s, (e, w))) ->
        Printf.sprintf " %d %d %d %d" (int_of_nat c) (int_of_nat s) (int_of_nat e) (int_of_nat w)) ts))
let rec triples = function
  | c :: s :: e :: t -> (nat_of_int c, (nat_of_int s, nat_of_int e)) :: triples t
  | _ -> []
let lens l = if l = [] then "-" else String.concat " " (List.map (fun n -> string_of_int (int_of_nat n)) l)
let hull_str = function
  | None -> "none"
  | Some (s, e) -> Printf.sprintf "%d %d" (int_of_nat s) (int_of_nat e)
let cache = ref []
let () =
  iter_lines (fun l ->
    if String.length l = 0 then print_newline () else
    let body = String.sub l 1 (String.length l - 1) in
    match l.[0] with
    | 'I' ->
        (match run_iter (triples (ints_of_line body)) with
         | None -> print_endline "PANIC"
         | Some (cs, (ss, (ps, (hs, a)))) ->
             print_endline (Printf.sprintf "C %s | S %s | P %s | H %s | A %s" (lens cs) (lens ss) (lens ps)
                              (String.concat "," (List.map hull_str hs)) (hull_str a)))
    | 'R' ->
        (match run_long (triples (ints_of_line body)) with
         | None -> print_endline "PANIC"
         | Some [] -> print_endline "R -"
         | Some ls -> print_endline ("R " ^ String.concat ","
                        (List.map (fun (s, e) -> Printf.sprintf "%d %d" (int_of_nat s) (int_of_nat e)) ls)))
    | 'W' ->
        let (u, gs) = run_rules (quads_in (ints_of_line body)) in
        print_endline ("W " ^ String.concat " | " (List.map spans_str (u :: gs)))
    | 'K' ->
        (match split_bar body with
         | [toks; src] ->
             let ls = run_comma (quads_in (ints_of_line toks)) (text_of_line src) in
             if ls = [] then print_endline "K -" else
             print_endline ("K " ^ String.concat ","
               (List.map (fun (s, (e, i)) -> Printf.sprintf "%d %d %d" (int_of_nat s) (int_of_nat e) (int_of_nat i)) ls))
         | _ -> print_endline "?")
    | 'T' -> quads "T" (run_doc (text_of_line body))
    | 'L' -> quads "L" (run_raw (text_of_line body))
    | 'G' ->
        (match split_bar body with
         | [r; toks; src] ->
             if String.trim r = "1" then cache := [];
             (match run_group !cache (triples (ints_of_line toks)) (text_of_line src) with
              | None -> print_endline "PANIC"
              | Some (ls, c') ->
                  cache := c';
                  if ls = [] then print_endline "L -" else
                  print_endline ("L " ^ String.concat ","
                    (List.map (fun (s, (e, i)) -> Printf.sprintf "%d %d %d" (int_of_nat s) (int_of_nat e) (int_of_nat i)) ls)))
         | _ -> print_endline "?")
    | _ -> print_endline "?")
