(* c01 driver.  stdin: one case per line, sections separated by '|':
     <op> <args> | <tokens> | <source code points> | <title-true (tid,len) pairs> | <title-panic pairs>
   tokens: six ints each — start end kind-id flags leaf-bits oracle-bits   (tid = position in the list)
   ops:  M <pat>   Pattern::matches                  -> "P" | n
         F <pat>   find_all_matches                  -> "P" | "s-e s-e .."
         L <pat>   PatternLinter::lint (all chunks)  -> "P" | absolute token ranges "a-b .."
         K c|s|p   iter_chunks/sentences/paragraphs  -> "P" | the lengths of the pieces
         H         [Token]::span()                   -> "N" | "P" | "a b"
         G         LongSentences spans               -> "P" | "a-b .."
         E <pat>   end to end, plain English: the MODEL lexes the source (document_plain, ASCII tables), takes kind-id /
                   flags / leaf bits of each token from the given tokens (by span start), lints -> "P" |
                   "<ranges as L> ; <spans as G>" | "T <model spans>" when the model's tokens are not the given ones
   pattern syntax (prefix): p i | f b | x n c.. | a | w | c n c.. | s k (n c..)* | e o | q | n |
     S k pats | E k pats | A k pats | N k pats | M k pats | R req pat | I pat | C pat | T o pat |
     X k pats | d | Z k pats k pats | P o | W k (n c.. pat)*
         O         ModalOf::match_to_lint on the tokens as ONE matched slice (Model/C01Bodies.modal_of_body) -> "P" | "N" | "a-b"
         OL        ModalOf through impl Linter: iter_chunks + run_on_chunk (generated modal_of_pattern) + modal_of_body
                   -> "P" | one "N" / "a-b" per call of match_to_lint
         Q k rows.. contents..   a proper-noun rule: rows as fat-token kinds (W text | S | B | p i), the model applies its
                   own ExactPhrase::from_document (exact_phrase_of); contents: per row the texts of the canonical tokens;
                   run_on_chunk (PatternMap) + proper_noun_body -> "P" | the spans of the lints, sorted
         U         RepeatedWords: the slices between neighbouring words on every chunk -> "P" | "ok"
   and, without sections:  B <RuleName> <n>   "can a non-zero match of this rule's pattern (generated table
         rule_table, Model/Tables_rulebodies.v) be n tokens long?"  -> "ok" | "impossible" | "unknown-rule"    *)
let lbits = ref [||]
let obits = ref [||]
let title_true : (int * int, unit) Hashtbl.t = Hashtbl.create 16
let title_panic : (int * int, unit) Hashtbl.t = Hashtbl.create 16

let leaf (i : nat) (t : tok) (_ : n list) : bool res =
  let i = int_of_nat i in
  if i = 15 then (if flag f_NUMBER t then Panic PUnwrap else Ok (flag f_WORD t))
  else Ok ((!lbits).(int_of_nat t.tid) land (1 lsl i) <> 0)

let oracle (o : nat) (ts : tok list) (_ : n list) : bool res =
  let o = int_of_nat o in
  match ts with
  | [] -> Ok false
  | t :: _ ->
      let id = int_of_nat t.tid in
      if o < 16 then Ok ((!obits).(id) land (1 lsl o) <> 0)
      else
        let key = (id, List.length ts) in
        if Hashtbl.mem title_panic key then Panic PUnwrap else Ok (Hashtbl.mem title_true key)

(* ---- pattern parser over a word list ---- *)
let rec take k f ws = if k = 0 then ([], ws) else let (x, ws) = f ws in let (r, ws) = take (k - 1) f ws in (x :: r, ws)
let p_int = function w :: ws -> (int_of_string w, ws) | [] -> failwith "int expected"
let p_text ws = let (k, ws) = p_int ws in let (cs, ws) = take k p_int ws in (List.map n_of_int cs, ws)
let rec p_pat ws : pat * string list =
  match ws with
  | [] -> failwith "pattern expected"
  | w :: ws -> (
      match w with
      | "p" -> let (i, ws) = p_int ws in (PPred (nat_of_int i), ws)
      | "f" -> let (i, ws) = p_int ws in (PFlag (nat_of_int i), ws)
      | "x" -> let (t, ws) = p_text ws in (PExactWord t, ws)
      | "a" -> (PAny, ws)
      | "w" -> (PWhitespace, ws)
      | "c" -> let (t, ws) = p_text ws in (PAnyCap t, ws)
      | "s" -> let (k, ws) = p_int ws in let (l, ws) = take k p_text ws in (PWordSet l, ws)
      | "e" -> let (i, ws) = p_int ws in (PWithinEdit (nat_of_int i), ws)
      | "q" -> (PImpliesQuantity, ws)
      | "n" -> (PNominal, ws)
      | "S" -> let (l, ws) = p_list ws in (PSeq l, ws)
      | "E" -> let (l, ws) = p_list ws in (PEither l, ws)
      | "A" -> let (l, ws) = p_list ws in (PAll l, ws)
      | "N" -> let (l, ws) = p_list ws in (PNaive l, ws)
      | "M" -> let (l, ws) = p_list ws in (PMap l, ws)
      | "R" -> let (r, ws) = p_int ws in let (q, ws) = p_pat ws in (PRepeat (q, nat_of_int r), ws)
      | "I" -> let (q, ws) = p_pat ws in (PInvert q, ws)
      | "C" -> let (q, ws) = p_pat ws in (PConsumes q, ws)
      | "T" -> let (o, ws) = p_int ws in let (q, ws) = p_pat ws in (PNotTitle (q, nat_of_int o), ws)
      | "X" -> let (l, ws) = p_list ws in (PExactPhrase l, ws)
      | "d" -> (PIndefArticle, ws)
      | "Z" -> let (a, ws) = p_list ws in let (b, ws) = p_list ws in (PSimilar (a, b), ws)
      | "P" -> let (o, ws) = p_int ws in (PSplitCompound (nat_of_int o), ws)
      | "W" ->
          let (k, ws) = p_int ws in
          let (l, ws) = take k (fun ws -> let (t, ws) = p_text ws in let (q, ws) = p_pat ws in ((t, q), ws)) ws in
          (PWordGroup l, ws)
      | _ -> failwith ("unknown pattern tag " ^ w))
and p_list ws = let (k, ws) = p_int ws in take k p_pat ws

let words s = List.filter (fun w -> w <> "") (String.split_on_char ' ' s)

let rec toks_of i = function
  | s :: e :: k :: f :: _ :: _ :: r ->
      { tspan = { sstart = nat_of_int s; send = nat_of_int e }; tkid = nat_of_int k; tflags = n_of_int f; tid = nat_of_int i }
      :: toks_of (i + 1) r
  | _ -> []
let rec bits_of sel = function
  | _ :: _ :: _ :: _ :: l :: o :: r -> (if sel then l else o) :: bits_of sel r
  | _ -> []
let rec fill tbl = function a :: b :: r -> Hashtbl.replace tbl (a, b) (); fill tbl r | _ -> ()

let show_span (s : span) = Printf.sprintf "%d-%d" (int_of_nat s.sstart) (int_of_nat s.send)

let show_outcome = function None -> "N" | Some s -> show_span s
let p_fkind ws =
  match ws with
  | "W" :: ws -> let (t, ws) = p_text ws in (FWord t, ws)
  | "S" :: ws -> (FSpace, ws)
  | "B" :: ws -> (FParaBreak, ws)
  | "p" :: ws -> let (i, ws) = p_int ws in (FPunct (nat_of_int i), ws)
  | _ -> failwith "fat-token kind expected"
let rec all_ok = function [] -> Ok [] | Ok x :: r -> (match all_ok r with Ok l -> Ok (x :: l) | Panic p -> Panic p) | Panic p :: _ -> Panic p

let () =
  iter_lines (fun l ->
    if String.length l = 0 then print_newline () else
    try
      match split_bar l with
      | [ hd ] when String.length hd > 2 && String.sub hd 0 2 = "B " ->
          (match words hd with
           | [ _; name; n ] ->
               let codes = List.init (String.length name) (fun i -> n_of_int (Char.code name.[i])) in
               (match rule_len_possible rule_table codes (nat_of_int (int_of_string n)) with
                | Some true -> print_endline "ok"
                | Some false -> print_endline "impossible"
                | None -> print_endline "unknown-rule")
           | _ -> print_endline "?")
      | hd :: tk :: src :: rest ->
          let ints = ints_of_line tk in
          let toks = toks_of 0 ints in
          lbits := Array.of_list (bits_of true ints);
          obits := Array.of_list (bits_of false ints);
          Hashtbl.reset title_true; Hashtbl.reset title_panic;
          (match rest with
           | tt :: tp :: _ -> fill title_true (ints_of_line tt); fill title_panic (ints_of_line tp)
           | tt :: _ -> fill title_true (ints_of_line tt)
           | [] -> ());
          let src = text_of_line src in
          let hw = words hd in
          (match hw with
           | "M" :: pw ->
               let (p, _) = p_pat pw in
               (match matches leaf oracle p toks src with
                | Ok n -> print_endline (string_of_int (int_of_nat n))
                | Panic _ -> print_endline "P")
           | "F" :: pw ->
               let (p, _) = p_pat pw in
               (match find_all_matches leaf oracle p toks src with
                | Ok l -> print_endline (String.concat " " (List.map show_span l))
                | Panic _ -> print_endline "P")
           | "L" :: pw ->
               let (p, _) = p_pat pw in
               (match iter_chunks toks, pattern_lint leaf oracle p toks src with
                | Ok cs, Ok per_chunk ->
                    let base = ref 0 in
                    let out = ref [] in
                    List.iter2 (fun c rs ->
                        List.iter (fun (a, b) ->
                            out := Printf.sprintf "%d-%d" (!base + int_of_nat a) (!base + int_of_nat b) :: !out) rs;
                        base := !base + List.length c) cs per_chunk;
                    print_endline (String.concat " " (List.rev !out))
                | _ -> print_endline "P")
           | "E" :: pw ->
               let (p, _) = p_pat pw in
               (match e2e_spans src with
                | Panic _ -> print_endline "P"
                | Ok sps when not (List.length sps = List.length toks && List.for_all2 (fun sp t -> sp = t.tspan) sps toks) ->
                    print_endline ("T " ^ String.concat " " (List.map show_span sps))
                | Ok _ ->
                    let table = List.map (fun t -> (t.tspan.sstart, t)) toks in
                    (match iter_chunks toks, e2e_lint leaf oracle table p src with
                     | Ok cs, Ok (per_chunk, ls) ->
                         let base = ref 0 in
                         let out = ref [] in
                         List.iter2 (fun c rs ->
                             List.iter (fun (a, b) ->
                                 out := Printf.sprintf "%d-%d" (!base + int_of_nat a) (!base + int_of_nat b) :: !out) rs;
                             base := !base + List.length c) cs per_chunk;
                         print_endline (String.concat " " (List.rev !out) ^ " ; " ^ String.concat " " (List.map show_span ls))
                     | _ -> print_endline "P"))
           | [ "K"; which ] ->
               let r = (match which with "c" -> iter_chunks toks | "s" -> iter_sentences toks | _ -> iter_paragraphs toks) in
               (match r with
                | Ok cs -> print_endline (String.concat " " (List.map (fun c -> string_of_int (List.length c)) cs))
                | Panic _ -> print_endline "P")
           | [ "O" ] ->
               (match modal_of_body toks src with
                | Ok r -> print_endline (show_outcome r)
                | Panic _ -> print_endline "P")
           | [ "OL" ] ->
               (match rule_lint leaf oracle modal_of_body modal_of_pattern toks src with
                | Ok l -> print_endline (String.concat " " (List.map show_outcome l))
                | Panic _ -> print_endline "P")
           | "Q" :: ws ->
               let (k, ws) = p_int ws in
               let (kinds, ws) = take k (fun ws -> let (n, ws) = p_int ws in take n p_fkind ws) ws in
               let (canon, _) = take k (fun ws -> let (n, ws) = p_int ws in take n p_text ws) ws in
               (match all_ok (List.map exact_phrase_of kinds) with
                | Panic _ -> print_endline "P"
                | Ok rows ->
                    (match rule_lint leaf oracle (proper_noun_body leaf oracle rows canon) (PMap rows) toks src with
                     | Ok l ->
                         let sps = List.filter_map (fun x -> x) l in
                         let sps = List.sort compare (List.map (fun (s : span) -> (int_of_nat s.sstart, int_of_nat s.send)) sps) in
                         print_endline (String.concat " " (List.map (fun (a, b) -> Printf.sprintf "%d-%d" a b) sps))
                     | Panic _ -> print_endline "P"))
           | [ "U" ] ->
               (match iter_chunks toks with
                | Panic _ -> print_endline "P"
                | Ok cs ->
                    if List.for_all (fun c -> match repeated_words_uses c with Ok _ -> true | Panic _ -> false) cs
                    then print_endline "ok" else print_endline "P")
           | [ "H" ] ->
               (match hull toks with
                | None -> print_endline "N"
                | Some (Panic _) -> print_endline "P"
                | Some (Ok s) -> Printf.printf "%d %d\n" (int_of_nat s.sstart) (int_of_nat s.send))
           | [ "G" ] ->
               (match long_sentences toks with
                | Ok l -> print_endline (String.concat " " (List.map show_span l))
                | Panic _ -> print_endline "P")
           | _ -> print_endline "?")
      | _ -> print_endline "?"
    with Failure m -> print_endline ("? " ^ m) | Not_found -> print_endline "? not_found" | Invalid_argument m -> print_endline ("? " ^ m))
