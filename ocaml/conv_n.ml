(* conv_n.ml — int <-> extracted binary N (code points) *)
let rec pos_of_int (n : int) : positive =
  if n <= 1 then XH else if n land 1 = 0 then XO (pos_of_int (n lsr 1)) else XI (pos_of_int (n lsr 1))
let n_of_int (n : int) : n = if n <= 0 then N0 else Npos (pos_of_int n)
let rec int_of_pos = function XH -> 1 | XO p -> 2 * int_of_pos p | XI p -> 2 * int_of_pos p + 1
let int_of_n = function N0 -> 0 | Npos p -> int_of_pos p
let text_of_line (s : string) : n list = List.map n_of_int (ints_of_line s)
let line_of_text (t : n list) : string = String.concat " " (List.map (fun c -> string_of_int (int_of_n c)) t)
