(* c15 driver.  argv.(1) = "debug" | "release" (which u8 semantics the model uses).
   stdin: one case per line, stdout: one result per line.  State: the Unicode table the harness dumps
   (the models take char::is_lowercase / char::to_lowercase as parameters), the named dictionaries and
   the implementation's last fuzzy result per dictionary (for the merged dictionary, see Z).
     T cp islower l1 l2 ..        declare Unicode data of one character                 -> "T"
     M name | e , e , ..          MutableDictionary::new + extend_words(e..) in order    -> "n <word_count>"
     K name | e , e , ..          the same when the ids of the entries are pairwise distinct (monitored by
                                  the harness): the word map is built directly (mut_extend_distinct_ids,
                                  Proofs/DictProofs.v) — used for the curated dictionary, where the
                                  quadratic insertion of the association-list model is too slow
     F name | e , e , ..          FstDictionary::new(e..)                                -> "n <word_count>"
     G name | e , e , ..          the same for a list that is already strictly sorted with pairwise distinct
                                  ids (sortedness checked here with the extracted adj_sorted, distinct ids
                                  monitored): fst_new_bulk (Proofs/DictProofs.v)
     X name | child child ..      MergedDictionary of the named children                 -> "n <word_count>"
     C name | q                   contains / exact / metadata / canonical / from_id      -> "c=_ e=_ m=_ k=_ i=_"
     W name                       words_iter, sorted                                     -> ...
     Z name d k | q | lq | impl   fuzzy_match; `impl` is the implementation's own result (entries
                                  "dist meta c1 c2 .." separated by ';', or "P class"):
        mutable dictionary: the model's result raw, in order (the (distance, word) sort of fix 5a329ea is a
          total order on the candidates: one possible outcome, C15_mutable_fuzzy_deterministic);
        FST dictionary: sort_unstable leaves the outcome open when a word reaches the dedup twice with
          different distances and at the cap; the implementation's result is validated against the
          relational specification (fst_admissible over the model's zip output): admissible -> its
          canonical form is echoed, unless it coincides with the deterministic model's, which is then
          printed; not admissible -> "NOT-ADMISSIBLE" + the model's canonical form;
        merged dictionary: MergedDictionary::fuzzy_match as a function of what the children returned —
          the children's recorded implementation results for the same query are fed to merged_fuzzy
          (stable sort, take k), and the result is printed raw, in order (falls back to the children's
          models when a child was not asked).
     O tag common                 declare WordMetadata::common of one interned metadata tag           -> "O"
     A name d | x                 the automaton stream of an FstDictionary: C15Automaton.la_search over its index
                                  for the string x and bound d                            -> "A i:dist i:dist .."
     S name d k | q | lq | impl   suggest_correct_spelling(q, k, d, dictionary) (spell/mod.rs); `impl` is the
                                  implementation's own fuzzy_match result for the same arguments (as in Z):
        mutable dictionary: the whole composition in the model (C15Suggest.suggest over the model's fuzzy search);
        FST / merged dictionary: order_suggestions as a function of what fuzzy_match returned (that result is
          validated by the Z case of the same query)                              -> "S <n>: w1, w2, .." in order
   an entry e is "meta c1 c2 .."; q, lq are code points.

   SHARDING (no model code involved).  The case file is a sequence of UNITS: a run of definition lines (M K F G X and
   the W lines that follow them) or a QUERY BLOCK (consecutive C / Z / S lines with the same query text — the lines the
   harness emits for one query of a scenario; A lines are stateless and stay in the unit they occur in).  Dictionaries have run-wide unique names and are registered LAZILY (built
   at first use), T / O lines are executed by everybody, and the only state a query line reads beside the dictionaries
   — the implementation's / model's last fuzzy result per dictionary — is reset at the start of every query block, so
   the output of a unit is a function of (T/O lines so far, the definitions it names, the unit's own lines).  Units can
   therefore be computed by different processes: without `--worker` the driver copies stdin to a temporary file, starts
   C15_SHARDS (default min(12, nproc)) copies of itself with `--worker i n file` through /bin/sh, each of which prints
   "lineno<TAB>result" for the units it owns (unit counter mod n; units on a bulk-loaded — curated — dictionary go to
   the first C15_HEAVY_SHARDS (default 2n/3) workers only, 130 000 entries cost memory), and merges the outputs by line
   number.  C15_SHARDS=1 runs everything in this process; both modes print the same bytes. *)
let dbg = Array.length Sys.argv > 1 && Sys.argv.(1) = "debug"

(* code points are shared: one extracted N per code point (the curated list would otherwise carry a binary numeral
   per character occurrence) *)
let n_memo : (int, n) Hashtbl.t = Hashtbl.create 4096
let n_of_int (i : int) : n =
  match Hashtbl.find_opt n_memo i with
  | Some v -> v
  | None -> let v = n_of_int i in Hashtbl.replace n_memo i v; v
let text_of_line (s : string) : n list = List.map n_of_int (ints_of_line s)

let utab : (int, bool * int list) Hashtbl.t = Hashtbl.create 1024
let is_lower (c : n) : bool = match Hashtbl.find_opt utab (int_of_n c) with Some (b, _) -> b | None -> false
let lower (c : n) : n list =
  match Hashtbl.find_opt utab (int_of_n c) with Some (_, l) -> List.map n_of_int l | None -> [c]

let common_tab : (int, bool) Hashtbl.t = Hashtbl.create 64
let is_common (m : nat) : bool = match Hashtbl.find_opt common_tab (int_of_nat m) with Some b -> b | None -> false

(* KF: the dictionary and the model of fst::Map::search_with_state + levenshtein DFA its fuzzy search runs on *)
type kind = KM | KF of fst_dict * ((n list * nat) list -> n list -> nat -> (nat * nat) list) | KX of string list
let dicts : (string, (kind * dict_ops) Lazy.t) Hashtbl.t = Hashtbl.create 64
(* names of bulk-loaded dictionaries and of merged dictionaries over one (scheduling only) *)
let heavy : (string, unit) Hashtbl.t = Hashtbl.create 16
(* (name) -> (query key, implementation's result) *)
let last : (string, string * fres list res) Hashtbl.t = Hashtbl.create 64
(* (name) -> (query key, the MODEL's fuzzy result of a mutable dictionary): the S case that follows a Z case
   with the same arguments runs `suggest` over the same dict_ops with this call memoised *)
let last_model : (string, string * fres list res) Hashtbl.t = Hashtbl.create 64
(* = spec_stream lev (spec_stream_fast_eq) *)
let stream = spec_stream_fast lev_fast

(* metadata tags are opaque to the model; Peano numerals are built with sharing (S of the previous
   one) so that 130 000 curated entries do not each carry their own numeral *)
let nat_tbl : nat array ref = ref [| O |]
let shared_nat (i : int) : nat =
  let i = max i 0 in
  let n = Array.length !nat_tbl in
  if i >= n then begin
    let a = Array.make (max (i + 1) (2 * n)) O in
    Array.blit !nat_tbl 0 a 0 n;
    for j = n to Array.length a - 1 do a.(j) <- S a.(j - 1) done;
    nat_tbl := a
  end;
  !nat_tbl.(i)

let words s = List.filter (fun w -> w <> "") (String.split_on_char ' ' s)
let parse_entries (s : string) : (n list * nat) list =
  if String.trim s = "" then [] else
  List.map (fun e -> match ints_of_line e with
                     | m :: cs -> (List.map n_of_int cs, shared_nat m)
                     | [] -> ([], O))
    (String.split_on_char ',' s)

let cps (t : n list) = String.concat " " (List.map (fun c -> string_of_int (int_of_n c)) t)
let opt f = function None -> "-" | Some x -> f x
let b2s b = if b then "1" else "0"

let panic_name = function
  | PIndex -> "index" | POverflow -> "overflow" | PUnwrap -> "assert" | PSpanOrder -> "span"
  | PUnderflow -> "underflow" | PFuel -> "fuel"

let parse_impl (s : string) : fres list res option =
  let s = String.trim s in
  if String.length s >= 1 && s.[0] = 'P' then
    (match words s with
     | [_; "overflow"] -> Some (Panic POverflow)
     | [_; "index"] -> Some (Panic PIndex)
     | [_; "assert"] -> Some (Panic PUnwrap)
     | _ -> None)
  else if s = "" then Some (Ok [])
  else Some (Ok (List.map (fun e -> match ints_of_line e with
                                    | d :: m :: cs -> { r_word = List.map n_of_int cs; r_dist = nat_of_int d; r_meta = shared_nat m }
                                    | _ -> failwith "bad impl entry")
                   (String.split_on_char ';' s)))

let show_entry (d, w, m) = Printf.sprintf "%d:%d:%s" d m (String.concat " " (List.map string_of_int w))
let tuple_of x = (int_of_nat x.r_dist, List.map int_of_n x.r_word, int_of_nat x.r_meta)

(* canonical form of a fuzzy result (the same function is applied to the implementation's result in
   harness/src/bin/c15.rs): entries as (distance, word, metadata); when fewer than k results came back
   all of them sorted by (distance, word); when exactly k came back the cap may have cut a group of
   equal distances at an unspecified place (hash-map order, unstable sort), so the entries strictly
   below the last distance are listed and the last distance group is summarised by its size. *)
let canon_fuzzy (k : int) (r : fres list) : string =
  let es = List.sort compare (List.map tuple_of r) in
  let n = List.length es in
  if n < k || n = 0 then String.trim ("R " ^ String.concat ", " (List.map show_entry es))
  else begin
    let (dmax, _, _) = List.nth es (n - 1) in
    let below = List.filter (fun (d, _, _) -> d < dmax) es in
    Printf.sprintf "R %s ; %d*%d" (String.concat ", " (List.map show_entry below)) dmax (n - List.length below)
  end
let raw_fuzzy (r : fres list) : string = String.trim ("R " ^ String.concat ", " (List.map (fun x -> show_entry (tuple_of x)) r))

let get name = match Hashtbl.find_opt dicts name with Some d -> Lazy.force d | None -> failwith ("unknown dictionary " ^ name)
let direct_map ws = List.map (fun (w, md) -> (word_id is_lower lower w, { e_meta = md; e_canon = w })) ws

(* one case line -> its result line.  Definition lines register the dictionary lazily; `force` = this process owns the
   line and has to print the word count *)
let process (l : string) (force : bool) : string =
    if String.length l < 1 then "" else
    let body = if String.length l > 1 then String.sub l 1 (String.length l - 1) else "" in
    let parts = split_bar body in
    let define name (mk : unit -> kind * dict_ops) : string =
      let z = lazy (mk ()) in
      Hashtbl.replace dicts name z;
      if force then Printf.sprintf "n %d" (int_of_nat (snd (Lazy.force z)).d_count) else "" in
    try
      match l.[0], parts with
      | 'T', [t] ->
          (match ints_of_line t with
           | c :: b :: ls -> Hashtbl.replace utab c (b <> 0, ls); "T"
           | _ -> "?")
      | 'M', [name; es] ->
          define name (fun () ->
            let m = mut_extend is_lower lower [] (parse_entries es) in
            (KM, mut_ops is_lower lower dbg m))
      | 'K', [name; es] ->
          Hashtbl.replace heavy name ();
          define name (fun () -> (KM, mut_ops is_lower lower dbg (direct_map (parse_entries es))))
      | 'F', [name; es] ->
          define name (fun () ->
            (* FstDictionary::new: the fuzzy search runs on the automaton product itself (C15Automaton.la_search) *)
            let f = fst_new is_lower lower (parse_entries es) in
            (KF (f, la_search), fst_ops is_lower lower la_search f))
      | 'G', [name; es] ->
          Hashtbl.replace heavy name ();
          define name (fun () ->
            let ws = parse_entries es in
            if not (adj_sorted ws) then failwith "G: entries not sorted";
            let f = { f_full = direct_map ws; f_words = ws } in
            (* the curated list: the length-prefiltered contract stream (= la_search: C15_automaton_search,
               C15_driver_shortcuts); la_search itself runs on it in the A cases *)
            (KF (f, stream), fst_ops is_lower lower stream f))
      | 'X', [name; cs] ->
          let names = words cs in
          if List.exists (Hashtbl.mem heavy) names then Hashtbl.replace heavy name ();
          define name (fun () -> (KX names, merged_ops (List.map (fun c -> snd (get c)) names)))
      | 'C', [name; q] ->
          let d = snd (get (String.trim name)) in
          let q = text_of_line q in
          Printf.sprintf "c=%s e=%s m=%s k=%s i=%s" (b2s (d.d_contains q)) (b2s (d.d_exact q))
            (opt (fun m -> string_of_int (int_of_nat m)) (d.d_meta q)) (opt cps (d.d_canon q))
            (opt cps (d.d_from_id (word_id is_lower lower q)))
      | 'Z', [hd; q; lq; impl] ->
          (match words hd with
           | [name; dd; kk] ->
               let (kind, d) = get name in
               let k = int_of_string kk in
               let dn = nat_of_int (int_of_string dd) and kn = nat_of_int k in
               let qt = text_of_line q and lqt = text_of_line lq in
               let key = dd ^ "/" ^ kk ^ "/" ^ q in
               let impl_r = parse_impl impl in
               (match impl_r with Some r -> Hashtbl.replace last name (key, r) | None -> Hashtbl.remove last name);
               let show_canon = function Panic w -> "P " ^ panic_name w | Ok r -> canon_fuzzy k r in
               (match kind with
                | KM ->
                    (* since fix 5a329ea the (distance, word) sort leaves nothing open: raw, in order *)
                    let mr = d.d_fuzzy qt lqt dn kn in
                    Hashtbl.replace last_model name (key, mr);
                    (match mr with
                     | Panic w -> "P " ^ panic_name w
                     | Ok r -> raw_fuzzy r)
                | KF (f, stream) ->
                    let model = d.d_fuzzy qt lqt dn kn in
                    (match model, impl_r with
                     | Ok mr, Some (Ok ir) ->
                         (match fst_merged stream f (normalized qt) lqt dn with
                          | Ok merged when fst_admissible merged kn ir ->
                              if canon_fuzzy k mr = canon_fuzzy k ir then canon_fuzzy k mr
                              else canon_fuzzy k ir
                          | _ -> "NOT-ADMISSIBLE " ^ canon_fuzzy k mr)
                     | _, _ -> show_canon model)
                | KX names ->
                    let shadow c =
                      let (_, ops) = get c in
                      match Hashtbl.find_opt last c with
                      | Some (key', r) when key' = key -> { ops with d_fuzzy = (fun _ _ _ _ -> r) }
                      | _ -> ops in
                    (match (merged_ops (List.map shadow names)).d_fuzzy qt lqt dn kn with
                     | Panic w -> "P " ^ panic_name w
                     | Ok r -> raw_fuzzy r))
           | _ -> "?")
      | 'O', [t] ->
          (match ints_of_line t with
           | [tag; c] -> Hashtbl.replace common_tab tag (c <> 0); "O"
           | _ -> "?")
      | 'S', [hd; q; lq; impl] ->
          (match words hd with
           | [name; dd; kk] ->
               let (kind, d) = get name in
               let dn = nat_of_int (int_of_string dd) and kn = nat_of_int (int_of_string kk) in
               let qt = text_of_line q and lqt = text_of_line lq in
               let show ws = Printf.sprintf "S %d: %s" (List.length ws) (String.concat ", " (List.map cps ws)) in
               let r = match kind with
                 | KM ->
                     let key = dd ^ "/" ^ kk ^ "/" ^ q in
                     let ops = match Hashtbl.find_opt last_model name with
                       | Some (key', mr) when key' = key -> { d with d_fuzzy = (fun _ _ _ _ -> mr) }
                       | _ -> d in
                     suggest is_common ops qt lqt kn dn
                 | KF _ | KX _ ->
                     (match parse_impl impl with
                      | Some (Ok ir) -> Ok (order_suggestions is_common qt ir)
                      | Some (Panic w) -> Panic w
                      | None -> failwith "S: unreadable implementation result") in
               (match r with
                | Panic w -> "P " ^ panic_name w
                | Ok ws -> String.trim (show ws))
           | _ -> "?")
      | 'A', [hd; x] ->
          (* the stream of fst::Map::search_with_state(levenshtein DFA of x, bound d) over the dictionary's index,
             by the automaton product *)
          (match words hd with
           | [name; dd] ->
               (match get name with
                | (KF (f, _), _) ->
                    let s = la_search f.f_words (text_of_line x) (nat_of_int (int_of_string dd)) in
                    String.trim ("A " ^ String.concat " " (List.map (fun (i, e) -> Printf.sprintf "%d:%d" (int_of_nat i) (int_of_nat e)) s))
                | _ -> "? A: not an FstDictionary")
           | _ -> "?")
      | 'W', [name] ->
          let d = snd (get (String.trim name)) in
          let ws = List.sort compare (List.map (fun w -> List.map int_of_n w) d.d_words) in
          String.trim ("W " ^ String.concat ", " (List.map (fun w -> String.concat " " (List.map string_of_int w)) ws))
      | _ -> "?"
    with Failure m -> "? " ^ m

(* ---------- units and their owners (the same computation in every worker) ---------- *)
(* Attached: an A line — stateless, stays in the unit it occurs in *)
type lk = Global | Def | Query of string | Wline | Attached
let classify (l : string) : lk =
  if String.length l < 1 then Global else
  match l.[0] with
  | 'M' | 'K' | 'F' | 'G' | 'X' -> Def
  | 'W' -> Wline
  | 'A' -> Attached
  | 'C' | 'Z' | 'S' ->
      (* the query text = second '|'-separated field *)
      (match String.index_opt l '|' with
       | None -> Query ""
       | Some i ->
           let j = match String.index_from_opt l (i + 1) '|' with Some j -> j | None -> String.length l in
           Query (String.trim (String.sub l (i + 1) (j - i - 1))))
  | _ -> Global

let first_name (l : string) : string =
  (* the dictionary a line is about: first word after the tag *)
  match words (String.sub l 1 (String.length l - 1)) with n :: _ -> n | [] -> ""

(* worker i of n over the channel ic; emit lineno result for every line this worker owns *)
let run_worker (ic : in_channel) (i : int) (n : int) (nheavy : int) (emit : int -> string -> unit) : unit =
  let lineno = ref 0 in
  let prev = ref Global in            (* kind of the previous non-global line *)
  let light = ref 0 and hv = ref 0 in (* unit counters *)
  let owned = ref false in
  let new_unit (is_heavy : bool) =
    if is_heavy then begin owned := (!hv mod nheavy = i); incr hv end
    else begin owned := (!light mod n = i); incr light end in
  (try
    while true do
      let l = input_line ic in
      (match classify l with
       | Global ->
           let r = process l false in
           if i = 0 then emit !lineno r
       | Def ->
           (match !prev with Def | Wline -> () | _ -> new_unit (String.length l > 200_000));
           prev := Def;
           let r = process l !owned in
           if !owned then emit !lineno r
       | Attached -> if !owned then emit !lineno (process l true)
       | Wline ->
           (match !prev with Def | Wline -> () | _ -> new_unit (Hashtbl.mem heavy (first_name l)));
           prev := Wline;
           if !owned then emit !lineno (process l true)
       | Query q ->
           (match !prev with
            | Query q' when q' = q -> ()
            | _ -> new_unit (Hashtbl.mem heavy (first_name l)); Hashtbl.reset last; Hashtbl.reset last_model);
           prev := Query q;
           if !owned then emit !lineno (process l true));
      incr lineno
    done
  with End_of_file -> ())

let env_int name default =
  match Sys.getenv_opt name with
  | Some s -> (match int_of_string_opt (String.trim s) with Some v when v >= 1 -> v | _ -> default)
  | None -> default

let nproc () : int =
  let f = Filename.temp_file "c15nproc" ".txt" in
  let n = if Sys.command (Printf.sprintf "getconf _NPROCESSORS_ONLN > %s 2>/dev/null" (Filename.quote f)) = 0 then
      (try let ic = open_in f in let v = int_of_string_opt (String.trim (input_line ic)) in close_in ic;
           (match v with Some v -> v | None -> 1) with _ -> 1) else 1 in
  (try Sys.remove f with _ -> ()); n

let () =
  let argv = Sys.argv in
  let na = Array.length argv in
  if na >= 6 && argv.(2) = "--worker" then begin
    (* c15 <mode> --worker i n nheavy file *)
    let i = int_of_string argv.(3) and n = int_of_string argv.(4) and nh = int_of_string argv.(5) in
    let ic = open_in_bin argv.(6) in
    run_worker ic i n nh (fun ln r -> print_string (string_of_int ln); print_char '\t'; print_endline r);
    close_in ic
  end else begin
    let n = env_int "C15_SHARDS" (max 1 (min 12 (nproc ()))) in
    if n = 1 then run_worker stdin 0 1 1 (fun _ r -> print_endline r)
    else begin
      let nh = min n (env_int "C15_HEAVY_SHARDS" (max 1 (2 * n / 3))) in
      let base = Filename.temp_file "c15cases" "" in
      let oc = open_out_bin base in
      let buf = Bytes.create 65536 in
      let total = ref 0 and last_nl = ref true in
      (let continue = ref true in
       while !continue do
         let k = input stdin buf 0 65536 in
         if k = 0 then continue := false else begin
           output oc buf 0 k;
           for j = 0 to k - 1 do if Bytes.get buf j = '\n' then incr total done;
           last_nl := (Bytes.get buf (k - 1) = '\n')
         end
       done);
      close_out oc;
      if not !last_nl then incr total;
      let mode = if na > 1 then argv.(1) else "release" in
      let cmd = Buffer.create 1024 in
      Buffer.add_string cmd "pids=\"\"; ";
      for i = 0 to n - 1 do
        Buffer.add_string cmd (Printf.sprintf "%s %s --worker %d %d %d %s > %s 2> %s & pids=\"$pids $!\"; "
          (Filename.quote Sys.executable_name) (Filename.quote mode) i n nh (Filename.quote base)
          (Filename.quote (Printf.sprintf "%s.out.%d" base i)) (Filename.quote (Printf.sprintf "%s.err.%d" base i)))
      done;
      Buffer.add_string cmd "rc=0; for p in $pids; do wait $p || rc=1; done; exit $rc";
      let rc = Sys.command (Buffer.contents cmd) in
      let cleanup () =
        (try Sys.remove base with _ -> ());
        for i = 0 to n - 1 do
          (try Sys.remove (Printf.sprintf "%s.out.%d" base i) with _ -> ());
          (try Sys.remove (Printf.sprintf "%s.err.%d" base i) with _ -> ())
        done in
      if rc <> 0 then begin
        for i = 0 to n - 1 do
          (try let ic = open_in (Printf.sprintf "%s.err.%d" base i) in
               (try while true do prerr_endline (input_line ic) done with End_of_file -> ()); close_in ic with _ -> ())
        done;
        cleanup (); prerr_endline "c15 driver: a worker failed"; exit 2
      end;
      (* merge by line number *)
      let ics = Array.init n (fun i -> open_in_bin (Printf.sprintf "%s.out.%d" base i)) in
      let next ic = match input_line ic with
        | l -> (match String.index_opt l '\t' with
                | Some t -> Some (int_of_string (String.sub l 0 t), String.sub l (t + 1) (String.length l - t - 1))
                | None -> failwith "c15 driver: malformed worker output")
        | exception End_of_file -> None in
      let heads = Array.map next ics in
      let cur = ref 0 in
      let out = Buffer.create (1 lsl 20) in
      for ln = 0 to !total - 1 do
        let found = ref false in
        let tries = ref 0 in
        while not !found && !tries < n do
          (match heads.(!cur) with
           | Some (k, r) when k = ln ->
               Buffer.add_string out r; Buffer.add_char out '\n';
               heads.(!cur) <- next ics.(!cur); found := true
           | _ -> cur := (!cur + 1) mod n; incr tries)
        done;
        if not !found then begin cleanup (); prerr_endline (Printf.sprintf "c15 driver: no worker produced line %d" ln); exit 2 end;
        if Buffer.length out > (1 lsl 20) then begin print_string (Buffer.contents out); Buffer.clear out end
      done;
      print_string (Buffer.contents out);
      Array.iter close_in ics;
      cleanup ()
    end
  end
