(* c15 driver.  argv.(1) = "debug" | "release" (which u8 semantics the model uses).
   stdin: one case per line, stdout: one result per line.  State: the Unicode table the harness dumps
   (the models take char::is_lowercase / char::to_lowercase as parameters), the named dictionaries and
   the implementation's last fuzzy result per dictionary (for the merged dictionary, see Z).
     T cp islower l1 l2 ..        declare Unicode data of one character                 -> "T"
     M name | e , e , ..          MutableDictionary::new + extend_words(e..) in order    -> "n <word_count>"
     K name | e , e , ..          the same when the ids of the entries are pairwise distinct (monitored by
                                  the harness): the word map is built directly (mut_extend_distinct_ids,
                                  Proofs/DictProofs.v) — used for the curated dictionary, where the
                                  quadratic insertion of the association-list model is too slow
     F name | e , e , ..          FstDictionary::new(e..)                                -> "n <word_count>"
     G name | e , e , ..          the same for a list that is already strictly sorted with pairwise distinct
                                  ids (sortedness checked here with the extracted adj_sorted, distinct ids
                                  monitored): fst_new_bulk (Proofs/DictProofs.v)
     X name | child child ..      MergedDictionary of the named children                 -> "n <word_count>"
     C name | q                   contains / exact / metadata / canonical / from_id      -> "c=_ e=_ m=_ k=_ i=_"
     W name                       words_iter, sorted                                     -> ...
     Z name d k | q | lq | impl   fuzzy_match; `impl` is the implementation's own result (entries
                                  "dist meta c1 c2 .." separated by ';', or "P class"):
        mutable dictionary: the model's result raw, in order (the (distance, word) sort of fix 5a329ea is a
          total order on the candidates: one possible outcome, C15_mutable_fuzzy_deterministic);
        FST dictionary: sort_unstable leaves the outcome open when a word reaches the dedup twice with
          different distances and at the cap; the implementation's result is validated against the
          relational specification (fst_admissible over the model's zip output): admissible -> its
          canonical form is echoed, unless it coincides with the deterministic model's, which is then
          printed; not admissible -> "NOT-ADMISSIBLE" + the model's canonical form;
        merged dictionary: MergedDictionary::fuzzy_match as a function of what the children returned —
          the children's recorded implementation results for the same query are fed to merged_fuzzy
          (stable sort, take k), and the result is printed raw, in order (falls back to the children's
          models when a child was not asked).
     O tag common                 declare WordMetadata::common of one interned metadata tag           -> "O"
     S name d k | q | lq | impl   suggest_correct_spelling(q, k, d, dictionary) (spell/mod.rs); `impl` is the
                                  implementation's own fuzzy_match result for the same arguments (as in Z):
        mutable dictionary: the whole composition in the model (C15Suggest.suggest over the model's fuzzy search);
        FST / merged dictionary: order_suggestions as a function of what fuzzy_match returned (that result is
          validated by the Z case of the same query)                              -> "S <n>: w1, w2, .." in order
   an entry e is "meta c1 c2 .."; q, lq are code points. *)
let dbg = Array.length Sys.argv > 1 && Sys.argv.(1) = "debug"

let utab : (int, bool * int list) Hashtbl.t = Hashtbl.create 1024
let is_lower (c : n) : bool = match Hashtbl.find_opt utab (int_of_n c) with Some (b, _) -> b | None -> false
let lower (c : n) : n list =
  match Hashtbl.find_opt utab (int_of_n c) with Some (_, l) -> List.map n_of_int l | None -> [c]

let common_tab : (int, bool) Hashtbl.t = Hashtbl.create 64
let is_common (m : nat) : bool = match Hashtbl.find_opt common_tab (int_of_nat m) with Some b -> b | None -> false

type kind = KM | KF of fst_dict | KX of string list
let dicts : (string, kind * dict_ops) Hashtbl.t = Hashtbl.create 64
(* (name) -> (query key, implementation's result) *)
let last : (string, string * fres list res) Hashtbl.t = Hashtbl.create 64
(* (name) -> (query key, the MODEL's fuzzy result of a mutable dictionary): the S case that follows a Z case
   with the same arguments runs `suggest` over the same dict_ops with this call memoised *)
let last_model : (string, string * fres list res) Hashtbl.t = Hashtbl.create 64
(* = spec_stream lev (spec_stream_fast_eq) *)
let stream = spec_stream_fast lev_fast

(* metadata tags are opaque to the model; Peano numerals are built with sharing (S of the previous
   one) so that 130 000 curated entries do not each carry their own numeral *)
let nat_tbl : nat array ref = ref [| O |]
let shared_nat (i : int) : nat =
  let i = max i 0 in
  let n = Array.length !nat_tbl in
  if i >= n then begin
    let a = Array.make (max (i + 1) (2 * n)) O in
    Array.blit !nat_tbl 0 a 0 n;
    for j = n to Array.length a - 1 do a.(j) <- S a.(j - 1) done;
    nat_tbl := a
  end;
  !nat_tbl.(i)

let words s = List.filter (fun w -> w <> "") (String.split_on_char ' ' s)
let parse_entries (s : string) : (n list * nat) list =
  if String.trim s = "" then [] else
  List.map (fun e -> match ints_of_line e with
                     | m :: cs -> (List.map n_of_int cs, shared_nat m)
                     | [] -> ([], O))
    (String.split_on_char ',' s)

let cps (t : n list) = String.concat " " (List.map (fun c -> string_of_int (int_of_n c)) t)
let opt f = function None -> "-" | Some x -> f x
let b2s b = if b then "1" else "0"

let panic_name = function
  | PIndex -> "index" | POverflow -> "overflow" | PUnwrap -> "assert" | PSpanOrder -> "span"
  | PUnderflow -> "underflow" | PFuel -> "fuel"

let parse_impl (s : string) : fres list res option =
  let s = String.trim s in
  if String.length s >= 1 && s.[0] = 'P' then
    (match words s with
     | [_; "overflow"] -> Some (Panic POverflow)
     | [_; "index"] -> Some (Panic PIndex)
     | [_; "assert"] -> Some (Panic PUnwrap)
     | _ -> None)
  else if s = "" then Some (Ok [])
  else Some (Ok (List.map (fun e -> match ints_of_line e with
                                    | d :: m :: cs -> { r_word = List.map n_of_int cs; r_dist = nat_of_int d; r_meta = shared_nat m }
                                    | _ -> failwith "bad impl entry")
                   (String.split_on_char ';' s)))

let show_entry (d, w, m) = Printf.sprintf "%d:%d:%s" d m (String.concat " " (List.map string_of_int w))
let tuple_of x = (int_of_nat x.r_dist, List.map int_of_n x.r_word, int_of_nat x.r_meta)

(* canonical form of a fuzzy result (the same function is applied to the implementation's result in
   harness/src/bin/c15.rs): entries as (distance, word, metadata); when fewer than k results came back
   all of them sorted by (distance, word); when exactly k came back the cap may have cut a group of
   equal distances at an unspecified place (hash-map order, unstable sort), so the entries strictly
   below the last distance are listed and the last distance group is summarised by its size. *)
let canon_fuzzy (k : int) (r : fres list) : string =
  let es = List.sort compare (List.map tuple_of r) in
  let n = List.length es in
  if n < k || n = 0 then String.trim ("R " ^ String.concat ", " (List.map show_entry es))
  else begin
    let (dmax, _, _) = List.nth es (n - 1) in
    let below = List.filter (fun (d, _, _) -> d < dmax) es in
    Printf.sprintf "R %s ; %d*%d" (String.concat ", " (List.map show_entry below)) dmax (n - List.length below)
  end
let raw_fuzzy (r : fres list) : string = String.trim ("R " ^ String.concat ", " (List.map (fun x -> show_entry (tuple_of x)) r))

let get name = match Hashtbl.find_opt dicts name with Some d -> d | None -> failwith ("unknown dictionary " ^ name)
let direct_map ws = List.map (fun (w, md) -> (word_id is_lower lower w, { e_meta = md; e_canon = w })) ws

let () =
  iter_lines (fun l ->
    if String.length l < 1 then print_newline () else
    let body = if String.length l > 1 then String.sub l 1 (String.length l - 1) else "" in
    let parts = split_bar body in
    try
      match l.[0], parts with
      | 'T', [t] ->
          (match ints_of_line t with
           | c :: b :: ls -> Hashtbl.replace utab c (b <> 0, ls); print_endline "T"
           | _ -> print_endline "?")
      | 'M', [name; es] ->
          let m = mut_extend is_lower lower [] (parse_entries es) in
          let ops = mut_ops is_lower lower dbg m in
          Hashtbl.replace dicts name (KM, ops);
          Printf.printf "n %d\n" (int_of_nat ops.d_count)
      | 'K', [name; es] ->
          let ops = mut_ops is_lower lower dbg (direct_map (parse_entries es)) in
          Hashtbl.replace dicts name (KM, ops);
          Printf.printf "n %d\n" (int_of_nat ops.d_count)
      | 'F', [name; es] ->
          let f = fst_new is_lower lower (parse_entries es) in
          let ops = fst_ops is_lower lower stream f in
          Hashtbl.replace dicts name (KF f, ops);
          Printf.printf "n %d\n" (int_of_nat ops.d_count)
      | 'G', [name; es] ->
          let ws = parse_entries es in
          if not (adj_sorted ws) then failwith "G: entries not sorted";
          let f = { f_full = direct_map ws; f_words = ws } in
          let ops = fst_ops is_lower lower stream f in
          Hashtbl.replace dicts name (KF f, ops);
          Printf.printf "n %d\n" (int_of_nat ops.d_count)
      | 'X', [name; cs] ->
          let names = words cs in
          let ops = merged_ops (List.map (fun c -> snd (get c)) names) in
          Hashtbl.replace dicts name (KX names, ops);
          Printf.printf "n %d\n" (int_of_nat ops.d_count)
      | 'C', [name; q] ->
          let d = snd (get (String.trim name)) in
          let q = text_of_line q in
          Printf.printf "c=%s e=%s m=%s k=%s i=%s\n" (b2s (d.d_contains q)) (b2s (d.d_exact q))
            (opt (fun m -> string_of_int (int_of_nat m)) (d.d_meta q)) (opt cps (d.d_canon q))
            (opt cps (d.d_from_id (word_id is_lower lower q)))
      | 'Z', [hd; q; lq; impl] ->
          (match words hd with
           | [name; dd; kk] ->
               let (kind, d) = get name in
               let k = int_of_string kk in
               let dn = nat_of_int (int_of_string dd) and kn = nat_of_int k in
               let qt = text_of_line q and lqt = text_of_line lq in
               let key = dd ^ "/" ^ kk ^ "/" ^ q in
               let impl_r = parse_impl impl in
               (match impl_r with Some r -> Hashtbl.replace last name (key, r) | None -> Hashtbl.remove last name);
               let show_canon = function Panic w -> "P " ^ panic_name w | Ok r -> canon_fuzzy k r in
               (match kind with
                | KM ->
                    (* since fix 5a329ea the (distance, word) sort leaves nothing open: raw, in order *)
                    let mr = d.d_fuzzy qt lqt dn kn in
                    Hashtbl.replace last_model name (key, mr);
                    (match mr with
                     | Panic w -> print_endline ("P " ^ panic_name w)
                     | Ok r -> print_endline (raw_fuzzy r))
                | KF f ->
                    let model = d.d_fuzzy qt lqt dn kn in
                    (match model, impl_r with
                     | Ok mr, Some (Ok ir) ->
                         (match fst_merged stream f (normalized qt) lqt dn with
                          | Ok merged when fst_admissible merged kn ir ->
                              if canon_fuzzy k mr = canon_fuzzy k ir then print_endline (canon_fuzzy k mr)
                              else print_endline (canon_fuzzy k ir)
                          | _ -> print_endline ("NOT-ADMISSIBLE " ^ canon_fuzzy k mr))
                     | _, _ -> print_endline (show_canon model))
                | KX names ->
                    let shadow c =
                      let (_, ops) = get c in
                      match Hashtbl.find_opt last c with
                      | Some (key', r) when key' = key -> { ops with d_fuzzy = (fun _ _ _ _ -> r) }
                      | _ -> ops in
                    (match (merged_ops (List.map shadow names)).d_fuzzy qt lqt dn kn with
                     | Panic w -> print_endline ("P " ^ panic_name w)
                     | Ok r -> print_endline (raw_fuzzy r)))
           | _ -> print_endline "?")
      | 'O', [t] ->
          (match ints_of_line t with
           | [tag; c] -> Hashtbl.replace common_tab tag (c <> 0); print_endline "O"
           | _ -> print_endline "?")
      | 'S', [hd; q; lq; impl] ->
          (match words hd with
           | [name; dd; kk] ->
               let (kind, d) = get name in
               let dn = nat_of_int (int_of_string dd) and kn = nat_of_int (int_of_string kk) in
               let qt = text_of_line q and lqt = text_of_line lq in
               let show ws = Printf.sprintf "S %d: %s" (List.length ws) (String.concat ", " (List.map cps ws)) in
               let r = match kind with
                 | KM ->
                     let key = dd ^ "/" ^ kk ^ "/" ^ q in
                     let ops = match Hashtbl.find_opt last_model name with
                       | Some (key', mr) when key' = key -> { d with d_fuzzy = (fun _ _ _ _ -> mr) }
                       | _ -> d in
                     suggest is_common ops qt lqt kn dn
                 | KF _ | KX _ ->
                     (match parse_impl impl with
                      | Some (Ok ir) -> Ok (order_suggestions is_common qt ir)
                      | Some (Panic w) -> Panic w
                      | None -> failwith "S: unreadable implementation result") in
               (match r with
                | Panic w -> print_endline ("P " ^ panic_name w)
                | Ok ws -> print_endline (String.trim (show ws)))
           | _ -> print_endline "?")
      | 'W', [name] ->
          let d = snd (get (String.trim name)) in
          let ws = List.sort compare (List.map (fun w -> List.map int_of_n w) d.d_words) in
          print_endline (String.trim ("W " ^ String.concat ", " (List.map (fun w -> String.concat " " (List.map string_of_int w)) ws)))
      | _ -> print_endline "?"
    with Failure m -> print_endline ("? " ^ m))
