(* c13 driver.  stdin: one case per line.
     R s1 e1 s2 e2 ...            -> remove_overlaps on those spans; prints kept ids
     A kind a b | src cps | cs cps -> Suggestion::apply;            prints "P" or "O cps"
     B a a' s1 e1 s2 e2 ...        -> chunk-cache re-basing of those spans from chunk start a to a'; prints "P" or the spans
     W n s1 e1 g1 s2 e2 g2 ...     -> harper-wasm Linter::lint after group.lint: n = 1 when no hash is stored, g = 1 ignored; prints reported ids
     F n | src cps | s e g k cps | ... -> lint as W, then one suggestion (kind k, chars) per reported lint, last first; "P" or "O cps"
     C s e s e ... | k s e k s e ... | ... -> CurrencyPlacement::lint: the (start,end) pairs whose text is wrong, then one section per chunk
                                      (k: 0 number 1 currency 2 other punctuation 3 whitespace 4 other); "P" or the spans of the lints
     L c s1 e1 h1 s2 e2 h2 ...     -> harper-cli's lint arm on raw lints (span, hash of the message): c = 1 for --count; "N n", "E" (No lints found)
                                      or "L coloured positions | anchor hash anchor hash ..." (pairs sorted) as read off the printed report
     D s1 e1 l1 s2 e2 l2 ...       -> remove_overlaps on lints that may be EXACTLY equal (same span, same label l); prints "s e l" of the kept lints in order
     M s e s e | s e | ...          -> merge_linters!: one section per sub-linter in declaration order; prints the kept ids *)
let rec htriples = function a :: b :: h :: t -> ((nat_of_int a, nat_of_int b), h) :: htriples t | _ -> []
let rec pairs = function a :: b :: t -> (nat_of_int a, nat_of_int b) :: pairs t | _ -> []
let rec triples = function a :: b :: c :: t -> ((nat_of_int a, nat_of_int b), c <> 0) :: triples t | _ -> []
let rec ktriples = function k :: a :: b :: t -> (nat_of_int k, (nat_of_int a, nat_of_int b)) :: ktriples t | _ -> []
let spans_line r = String.trim (String.concat " " (List.map (fun (x, y) -> string_of_int (int_of_nat x) ^ " " ^ string_of_int (int_of_nat y)) r))
let fix_item (sec : string) =
  match ints_of_line sec with
  | s :: e :: g :: k :: cs -> (((nat_of_int s, nat_of_int e), g <> 0), (nat_of_int k, List.map n_of_int cs))
  | _ -> failwith "bad F item"
let () =
  iter_lines (fun l ->
    if String.length l = 0 then print_newline () else
    let body = String.sub l 1 (String.length l - 1) in
    match l.[0] with
    | 'R' ->
        let kept = run_remove_overlaps (pairs (ints_of_line body)) in
        print_endline (String.concat " " (List.map (fun k -> string_of_int (int_of_nat k)) kept))
    | 'A' ->
        (match split_bar body with
         | [hd; src; cs] ->
             (match ints_of_line hd with
              | [k; a; b] ->
                  (match run_apply (nat_of_int k) (text_of_line cs) (nat_of_int a) (nat_of_int b) (text_of_line src) with
                   | None -> print_endline "P"
                   | Some t -> print_endline (String.trim ("O " ^ line_of_text t)))
              | _ -> print_endline "?")
         | _ -> print_endline "?")
    | 'B' ->
        (match ints_of_line body with
         | a :: a2 :: rest ->
             (match run_rebase (nat_of_int a) (nat_of_int a2) (pairs rest) with
              | None -> print_endline "P"
              | Some r -> print_endline (String.trim (String.concat " " (List.map (fun (x, y) -> string_of_int (int_of_nat x) ^ " " ^ string_of_int (int_of_nat y)) r))))
         | _ -> print_endline "?")
    | 'W' ->
        (match ints_of_line body with
         | n :: rest ->
             let kept = run_wasm_lint (n <> 0) (triples rest) in
             print_endline (String.concat " " (List.map (fun k -> string_of_int (int_of_nat k)) kept))
         | _ -> print_endline "?")
    | 'F' ->
        (match split_bar body with
         | hd :: src :: items ->
             (match ints_of_line hd with
              | [n] ->
                  (match run_fix_all (n <> 0) (text_of_line src) (List.map fix_item (List.filter (fun x -> x <> "") items)) with
                   | None -> print_endline "P"
                   | Some t -> print_endline (String.trim ("O " ^ line_of_text t)))
              | _ -> print_endline "?")
         | _ -> print_endline "?")
    | 'C' ->
        (match split_bar body with
         | wrongs :: chunks ->
             (match run_currency (List.map (fun c -> ktriples (ints_of_line c)) chunks) (pairs (ints_of_line wrongs)) with
              | None -> print_endline "P"
              | Some r -> print_endline (spans_line r))
         | _ -> print_endline "?")
    | 'L' ->
        (match ints_of_line body with
         | c :: rest ->
             let items = htriples rest in
             let hashes = Array.of_list (List.map snd items) in
             (match run_cli_report (c <> 0) (List.map fst items) with
              | (Some n, _) -> print_endline ("N " ^ string_of_int (int_of_nat n))
              | (None, None) -> print_endline "E"
              | (None, Some (pos, labels)) ->
                  let ls = List.sort compare (List.map (fun (a, i) -> (int_of_nat a, hashes.(int_of_nat i))) labels) in
                  print_endline (String.trim ("L " ^ String.concat " " (List.map (fun p -> string_of_int (int_of_nat p)) pos) ^ " | "
                                 ^ String.concat " " (List.map (fun (a, h) -> string_of_int a ^ " " ^ string_of_int h) ls))))
         | _ -> print_endline "?")
    | 'M' ->
        let kept = run_merge_ids (List.map (fun sec -> pairs (ints_of_line sec)) (split_bar body)) in
        print_endline (String.concat " " (List.map (fun k -> string_of_int (int_of_nat k)) kept))
    | 'D' ->
        let items = Array.of_list (htriples (ints_of_line body)) in
        let kept = run_remove_overlaps (List.map fst (Array.to_list items)) in
        print_endline (String.concat " " (List.map (fun k -> let ((a, b), l) = items.(int_of_nat k) in
          string_of_int (int_of_nat a) ^ " " ^ string_of_int (int_of_nat b) ^ " " ^ string_of_int l) kept))
    | _ -> print_endline "?")
