(* c13 driver.  stdin: one case per line.
     R s1 e1 s2 e2 ...            -> remove_overlaps on those spans; prints kept ids
     A kind a b | src cps | cs cps -> Suggestion::apply;            prints "P" or "O cps"
     B a a' s1 e1 s2 e2 ...        -> chunk-cache re-basing of those spans from chunk start a to a'; prints "P" or the spans *)
let rec pairs = function a :: b :: t -> (nat_of_int a, nat_of_int b) :: pairs t | _ -> []
let () =
  iter_lines (fun l ->
    if String.length l = 0 then print_newline () else
    let body = String.sub l 1 (String.length l - 1) in
    match l.[0] with
    | 'R' ->
        let kept = run_remove_overlaps (pairs (ints_of_line body)) in
        print_endline (String.concat " " (List.map (fun k -> string_of_int (int_of_nat k)) kept))
    | 'A' ->
        (match split_bar body with
         | [hd; src; cs] ->
             (match ints_of_line hd with
              | [k; a; b] ->
                  (match run_apply (nat_of_int k) (text_of_line cs) (nat_of_int a) (nat_of_int b) (text_of_line src) with
                   | None -> print_endline "P"
                   | Some t -> print_endline (String.trim ("O " ^ line_of_text t)))
              | _ -> print_endline "?")
         | _ -> print_endline "?")
    | 'B' ->
        (match ints_of_line body with
         | a :: a2 :: rest ->
             (match run_rebase (nat_of_int a) (nat_of_int a2) (pairs rest) with
              | None -> print_endline "P"
              | Some r -> print_endline (String.trim (String.concat " " (List.map (fun (x, y) -> string_of_int (int_of_nat x) ^ " " ^ string_of_int (int_of_nat y)) r))))
         | _ -> print_endline "?")
    | _ -> print_endline "?")
