(* c14e_open.ml / c14e_close.ml wrap gen/c14e_model.ml into a module (see drivers.txt) *)
module E = struct
