(* c19_fix.ml — the extracted model defines an inductive type named `string` (Coq strings, used for the field-name literals of C19Record.v); give the name back to OCaml strings for the driver code that follows *)
open struct type string = Stdlib.String.t end
