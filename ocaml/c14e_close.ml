end
