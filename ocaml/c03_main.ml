(* c03 driver.  stdin: one case per line.
     A kind a b | src cps | cs cps -> Suggestion::apply;            prints "P" or "O cps"
     B a a' s1 e1 s2 e2 ...        -> chunk-cache re-basing of those spans from chunk start a to a'; prints "P" or the spans
     S op a b x y | src cps        -> one function of span.rs (Model/C03Span.v run_span_op) on Span{start:a,end:b}; numbers
                                      are full 64-bit usize values in decimal.  prints P | S a b | N n | B 0/1 | - | T cps | L n..
     GN                            -> LintGroup::empty() with the harness's test rules; prints "ok"
     GC cfg                        -> group.config := cfg (bit i = rule i enabled); prints "ok"
     GL|src cps|name: s e p ..;name: ..|s e k s e k ..;name: s e p ..;..|<next chunk>|..
                                   -> LintGroup::lint on that document: whole-document rules with what each returns now,
                                      then one field per token slice of iter_chunks(): its tokens (span, kind id) and
                                      what each pattern rule returns on it now (document space).  Hull, chunk characters,
                                      relative tokens, key, hit/miss, pull_by / push_by: the MODEL.  prints "P" or "s e p ..."
     R Name ls le | s0 e0 s1 e1 .. -> the span of the lint the body of pattern rule Name (a row of Tables_c03roots) makes on a matched
                                      slice whose tokens have these spans (C03Roots.run_rule_span): prints "s e" — computed from the
                                      token spans alone when the rule's sources need no run-time value, else `ls le` when some source
                                      denotes it for some run-time values — or "none" / "unknown-rule"
     W Name ls le | s0 e0 s1 e1 .. -> does some Lint construction of struct rule Name (a row of Tables_c03structroots) denote the span
                                      ls..le for SOME token indices over a document whose tokens have these spans
                                      (C03StructRoots.run_struct_rule_span): "yes" / "no" / "unknown-rule"
     GE|...                        -> the same call on the same state, but over the REAL LRU (Model/C03LintGroupLru.v: promotion on
                                      get, least recently used entry popped on put at capacity lint_group_cache_cap) *)
let rec pairs = function a :: b :: t -> (nat_of_int a, nat_of_int b) :: pairs t | _ -> []
(* unsigned 64-bit decimal <-> extracted binary N *)
let n_of_u64 (x : int64) : n =
  let rec pos (x : int64) : positive =
    if Int64.equal x 1L then XH else
    let r = pos (Int64.shift_right_logical x 1) in
    if Int64.equal (Int64.logand x 1L) 0L then XO r else XI r in
  if Int64.equal x 0L then N0 else Npos (pos x)
let n_of_dec (s : string) : n = n_of_u64 (Int64.of_string ("0u" ^ s))
let rec u64_of_pos = function
  | XH -> 1L
  | XO p -> Int64.shift_left (u64_of_pos p) 1
  | XI p -> Int64.logor (Int64.shift_left (u64_of_pos p) 1) 1L
let dec_of_n = function N0 -> "0" | Npos p -> Printf.sprintf "%Lu" (u64_of_pos p)
let words s = List.filter (fun w -> w <> "") (String.split_on_char ' ' s)

let rec triples = function
  | a :: b :: c :: t -> { cl_span = { sstart = nat_of_int a; send = nat_of_int b }; cl_body = n_of_int c } :: triples t
  | _ -> []
let rec tokens = function
  | a :: b :: k :: t -> (n_of_int k, { sstart = nat_of_int a; send = nat_of_int b }) :: tokens t
  | _ -> []
let str_toks (ts : n tok list) =
  String.concat " " (List.map (fun (k, sp) -> Printf.sprintf "%d %d %d" (int_of_nat sp.sstart) (int_of_nat sp.send) (int_of_n k)) ts)
let show_lints ls =
  String.concat " " (List.map (fun l -> Printf.sprintf "%d %d %d" (int_of_nat l.cl_span.sstart) (int_of_nat l.cl_span.send) (int_of_n l.cl_body)) ls)
let thash : (string, int) Hashtbl.t = Hashtbl.create 1024
let tok_hash rt =
  let k = str_toks rt in
  match Hashtbl.find_opt thash k with
  | Some h -> n_of_int h
  | None -> let h = Hashtbl.length thash + 1 in Hashtbl.replace thash k h; n_of_int h
(* one shared N per code point: the cache keys of a long history (10 000 chunk texts) stay small and hot *)
let cp_tbl : (int, n) Hashtbl.t = Hashtbl.create 256
let intern_text (t : n list) : n list =
  List.map (fun c -> let i = int_of_n c in
    match Hashtbl.find_opt cp_tbl i with Some c' -> c' | None -> Hashtbl.replace cp_tbl i c; c) t
let st = ref (lg_fresh (n_of_int 0))
(* the capacity of chunk_pattern_cache as lint_group.rs states it (Tables_c03cache.v, regenerated on every run) *)
let cap = lazy lint_group_cache_cap
(* "name: s e p .." -> (name, lints) *)
let rule_item (s : string) : (int * clint list) option =
  match String.split_on_char ':' s with
  | [n; ls] when String.trim n <> "" -> Some (int_of_string (String.trim n), triples (ints_of_line ls))
  | _ -> None

let () =
  iter_lines (fun l ->
    if String.length l = 0 then print_newline () else
    let body = String.sub l 1 (String.length l - 1) in
    match l.[0] with
    | 'A' ->
        (match split_bar body with
         | [hd; src; cs] ->
             (match ints_of_line hd with
              | [k; a; b] ->
                  (match run_apply (nat_of_int k) (text_of_line cs) (nat_of_int a) (nat_of_int b) (text_of_line src) with
                   | None -> print_endline "P"
                   | Some t -> print_endline (String.trim ("O " ^ line_of_text t)))
              | _ -> print_endline "?")
         | _ -> print_endline "?")
    | 'B' ->
        (match ints_of_line body with
         | a :: a2 :: rest ->
             (match run_rebase (nat_of_int a) (nat_of_int a2) (pairs rest) with
              | None -> print_endline "P"
              | Some r -> print_endline (String.trim (String.concat " " (List.map (fun (x, y) -> string_of_int (int_of_nat x) ^ " " ^ string_of_int (int_of_nat y)) r))))
         | _ -> print_endline "?")
    | 'S' ->
        (match split_bar body with
         | [hd; src] ->
             (match words hd with
              | [op; a; b; x; y] ->
                  (match run_span_op (n_of_dec op) (n_of_dec a) (n_of_dec b) (n_of_dec x) (n_of_dec y) (text_of_line src) with
                   | UPanic -> print_endline "P"
                   | USpan s -> print_endline ("S " ^ dec_of_n s.ustart ^ " " ^ dec_of_n s.uend)
                   | UNum n -> print_endline ("N " ^ dec_of_n n)
                   | UBool v -> print_endline (if v then "B 1" else "B 0")
                   | UNone -> print_endline "-"
                   | UText t -> print_endline (String.trim ("T " ^ line_of_text t))
                   | UNums ns -> print_endline (String.trim ("L " ^ String.concat " " (List.map dec_of_n ns))))
              | _ -> print_endline "?")
         | _ -> print_endline "?")
    | 'R' ->
        (match split_bar body with
         | [hd; sp] ->
             (match words hd with
              | [name; ls; le] ->
                  let nm = List.init (String.length name) (fun i -> nat_of_int (Char.code name.[i])) in
                  let got = { sstart = nat_of_int (int_of_string ls); send = nat_of_int (int_of_string le) } in
                  let spans = List.map (fun (a, b) -> { sstart = a; send = b }) (pairs (ints_of_line sp)) in
                  (match run_rule_span pattern_rule_lint_asts nm spans got with
                   | None -> print_endline "unknown-rule"
                   | Some None -> print_endline "none"
                   | Some (Some s) -> print_endline (Printf.sprintf "%d %d" (int_of_nat s.sstart) (int_of_nat s.send)))
              | _ -> print_endline "?")
         | _ -> print_endline "?")
    | 'W' ->
        (match split_bar body with
         | [hd; sp] ->
             (match words hd with
              | [name; ls; le] ->
                  let nm = List.init (String.length name) (fun i -> nat_of_int (Char.code name.[i])) in
                  let got = { sstart = nat_of_int (int_of_string ls); send = nat_of_int (int_of_string le) } in
                  let spans = List.map (fun (a, b) -> { sstart = a; send = b }) (pairs (ints_of_line sp)) in
                  (match run_struct_rule_span struct_rule_srcs nm spans got with
                   | None -> print_endline "unknown-rule"
                   | Some true -> print_endline "yes"
                   | Some false -> print_endline "no")
              | _ -> print_endline "?")
         | _ -> print_endline "?")
    | 'G' ->
        (match String.split_on_char '|' l with
         | ["GN"] -> st := lg_fresh (n_of_int 0); Hashtbl.reset thash; print_endline "ok"
         | [hd] when String.length hd > 2 && hd.[1] = 'C' ->
             st := run_lg_set_cfg !st (n_of_dec (String.trim (String.sub hd 2 (String.length hd - 2))));
             print_endline "ok"
         | ("GL" | "GE" as tag) :: src :: whole :: chunks ->
             (try
               let src = intern_text (text_of_line src) in
               let linters = List.filter_map (fun s -> match rule_item s with
                   | Some (n, ls) -> Some (n_of_int n, (fun _ _ -> ls))
                   | None -> None) (String.split_on_char ';' whole) in
               let tbl : (int * string, clint list) Hashtbl.t = Hashtbl.create 64 in
               let names = ref [] in
               let chunk_toks = List.map (fun c ->
                   match String.split_on_char ';' c with
                   | [] -> []
                   | toks :: rules ->
                       let ts = tokens (ints_of_line toks) in
                       List.iter (fun r -> match rule_item r with
                           | Some (n, ls) ->
                               if not (List.mem n !names) then names := !names @ [n];
                               Hashtbl.replace tbl (n, str_toks ts) ls
                           | None -> ()) rules;
                       ts) chunks in
               let plinters = List.map (fun n ->
                   (n_of_int n, (fun _ _ ts -> match Hashtbl.find_opt tbl (n, str_toks ts) with Some v -> v | None -> failwith "unknown chunk"))) !names in
               let run = if tag = "GE" then run_lg_lint_lru (Lazy.force cap) else run_lg_lint in
               (match run (fun c -> c) tok_hash linters plinters !st src chunk_toks with
                | None -> print_endline "P"
                | Some ((s2, out), _) -> st := s2; print_endline (show_lints out))
             with Failure m -> print_endline ("? " ^ m))
         | _ -> print_endline "?")
    | _ -> print_endline "?")
