(* c06 driver.  stdin: one case per line (written by harness/src/bin/c06.rs).
     U cp flags | lc cps | uc cps               Unicode case data (flags: 1 = is_lowercase, 2 = is_uppercase); prints "u"
     L d | src | s e s e .. | entries | fuzzy    lint_doc on the document; entries "dial cps ; .." (dial 0 = none,
                                                 1..4 = American Canadian Australian British); fuzzy "dist , w , r1 , r2 ; .."
                                                 prints "-" | "s e : sug , sug ; .." | "P"
     F m d exact exact_lower                     accept_facts (m: 0 = no metadata, 1 = no dialect, 2..5 = dialect); prints 1/0
     W                                           the Coq witness of F24: "entries | src | word spans | lints" *)
let tbl_flags : (int, int) Hashtbl.t = Hashtbl.create 8192
let tbl_lc : (int, n list) Hashtbl.t = Hashtbl.create 8192
let tbl_uc : (int, n list) Hashtbl.t = Hashtbl.create 8192
let lc c = match Hashtbl.find_opt tbl_lc (int_of_n c) with Some l -> l | None -> [c]
let uc c = match Hashtbl.find_opt tbl_uc (int_of_n c) with Some l -> l | None -> [c]
let flag c b = match Hashtbl.find_opt tbl_flags (int_of_n c) with Some f -> f land b <> 0 | None -> false
let is_lower c = flag c 1
let is_upper c = flag c 2

let dialect_of_int = function 1 -> American | 2 -> Canadian | 3 -> Australian | _ -> British
let split_on ch s = List.map String.trim (String.split_on_char ch s)
let nonempty l = List.filter (fun s -> s <> "") l
let entry_of s =
  match ints_of_line s with
  | d :: cps -> { canon = List.map n_of_int cps; edialect = (if d = 0 then None else Some (dialect_of_int d)) }
  | [] -> failwith "entry"
let rec spans = function a :: b :: t -> { sstart = nat_of_int a; send = nat_of_int b } :: spans t | _ -> []
let show_lint l =
  String.trim (Printf.sprintf "%d %d : %s" (int_of_nat l.sl_span.sstart) (int_of_nat l.sl_span.send)
                 (String.concat " , " (List.map line_of_text l.sl_sugg)))
let show_lints = function
  | Panic _ -> "P"
  | Ok [] -> "-"
  | Ok ls -> String.concat " ; " (List.map show_lint ls)
let show_entries es =
  String.concat " ; " (List.map (fun e ->
    let d = match e.edialect with None -> 0 | Some American -> 1 | Some Canadian -> 2 | Some Australian -> 3 | Some British -> 4 in
    String.trim (Printf.sprintf "%d %s" d (line_of_text e.canon))) es)
let show_spans ws =
  String.concat " " (List.map (fun s -> Printf.sprintf "%d %d" (int_of_nat s.sstart) (int_of_nat s.send)) ws)

let () =
  iter_lines (fun l ->
    if String.length l = 0 then print_newline () else
    let body = String.sub l 1 (String.length l - 1) in
    match l.[0] with
    | 'U' ->
        (match split_bar body with
         | [hd; lcs; ucs] ->
             (match ints_of_line hd with
              | [cp; fl] ->
                  Hashtbl.replace tbl_flags cp fl;
                  Hashtbl.replace tbl_lc cp (text_of_line lcs);
                  Hashtbl.replace tbl_uc cp (text_of_line ucs);
                  print_endline "u"
              | _ -> print_endline "?")
         | _ -> print_endline "?")
    | 'L' ->
        (match split_bar body with
         | [d; src; sp; es; fz] ->
             let d = dialect_of_int (int_of_string d) in
             let dict = List.map entry_of (nonempty (split_on ';' es)) in
             let table =
               List.filter_map (fun row ->
                 match nonempty (split_on ',' row) with
                 | dist :: w :: rs -> Some ((int_of_string dist, ints_of_line w), List.map text_of_line rs)
                 | _ -> None) (nonempty (split_on ';' fz)) in
             (* a distance the implementation never asked for: answer with a word no dictionary lists *)
             let fuzzy _ w k =
               match List.assoc_opt (int_of_nat k, List.map int_of_n w) table with
               | Some rs -> rs
               | None -> [[n_of_int 0]] in
             print_endline (show_lints (run_lint_doc lc uc is_lower is_upper fuzzy dict d (text_of_line src) (spans (ints_of_line sp))))
         | _ -> print_endline "?")
    | 'F' ->
        (match ints_of_line body with
         | [m; d; ex; exl] ->
             let meta = if m = 0 then None else if m = 1 then Some None else Some (Some (dialect_of_int (m - 1))) in
             print_endline (if run_accept_facts meta (dialect_of_int d) (ex <> 0) (exl <> 0) then "1" else "0")
         | _ -> print_endline "?")
    | 'W' ->
        print_endline (String.concat " | "
          [show_entries f24_dict; line_of_text w_socio_political; show_spans f24_words; show_lints f24_run])
    | _ -> print_endline "?")
