(* c06 driver.  stdin: one case per line (written by harness/src/bin/c06.rs).
     U cp flags | lc cps | uc cps               Unicode case data (flags: 1 = is_lowercase, 2 = is_uppercase); prints "u"
     L d | src | s e s e .. | entries | fuzzy    lint_doc on the document; entries "dial cps ; .." (dial 0 = none,
                                                 1..4 = American Canadian Australian British); fuzzy "dist , w , r1 , r2 ; .."
                                                 prints "-" | "s e : sug , sug ; .." | "P"
     F m d exact exact_lower                     accept_facts (m: 0 = no metadata, 1 = no dialect, 2..5 = dialect); prints 1/0
     W                                           the Coq witness of F24: "entries | src | word spans | lints"
     R name lo-hi lo-hi ..                       range table of a Unicode predicate of the lexer model (ws | num | alpha | ling),
                                                 dumped from Rust's char methods; prints "R name #ranges"
     T src                                       C06Words.doc_words: the Word-token spans "s e s e .." | "-" | "P"
     O w                                         C06Words.one_word: 1 / 0
     A cp                                        the four flags Tables_f24.f24_alphabet gives the character: e.g. 0011
     D                                           the dictionary REBUILT from dictionary.dict + affixes.json by the translator
                                                 (Tables_f24.dict_word_count / dict_digest): "count digest(hex)"
     M w                                         is w in Tables_f24.dict_nonsimple_entries (rebuilt entries that are not simple words)? 1 / 0
     NC                                          length of dict_nonsimple_entries
     B w                                         simple_wordb / alnum_wordb under the R tables: e.g. "01"
     S item ; item ; ..                          C06Sentence.run_sentence (last item `p 46`: C06SentenceDot.run_sentence_dot on the
                                                 items before it; with apostrophe items among them: C06SentenceContrDot.run_sentence_contr_dot) under the R tables; item = "w cps" | "s n" | "p cp";
                                                 prints "N" (not a sentence of the class) | "text cps | all token spans | word spans" *)
(* N -> 16 hex digits (dict_digest does not fit OCaml's 63-bit int) *)
let hex_of_n (x : n) : string =
  let rec bits p = match p with XH -> [1] | XO q -> 0 :: bits q | XI q -> 1 :: bits q in
  let bs = match x with N0 -> [] | Npos p -> bits p in
  let rec nibbles = function
    | [] -> []
    | a :: b :: c :: d :: t -> (a + 2 * b + 4 * c + 8 * d) :: nibbles t
    | l -> nibbles (l @ [0]) in
  let ds = List.rev (nibbles bs) in
  let s = String.concat "" (List.map (Printf.sprintf "%x") ds) in
  String.make (max 0 (16 - String.length s)) '0' ^ s
let nonsimple : (int list, unit) Hashtbl.t Lazy.t = lazy (
  let h = Hashtbl.create 2048 in
  List.iter (fun e -> Hashtbl.replace h (List.map int_of_n e) ()) dict_nonsimple_entries; h)
let tables : (string, (int * int) array) Hashtbl.t = Hashtbl.create 8
let in_table name =
  fun (c : n) ->
    match Hashtbl.find_opt tables name with
    | None -> false
    | Some a ->
        let x = int_of_n c in
        let lo = ref 0 and hi = ref (Array.length a - 1) and found = ref false in
        while not !found && !lo <= !hi do
          let mid = (!lo + !hi) / 2 in
          let (l, h) = a.(mid) in
          if x < l then hi := mid - 1 else if x > h then lo := mid + 1 else found := true
        done;
        !found
let uni_now () = { u_whitespace = in_table "ws"; u_numeric = in_table "num"; u_alphabetic = in_table "alpha"; u_lingual = in_table "ling" }
let tbl_flags : (int, int) Hashtbl.t = Hashtbl.create 8192
let tbl_lc : (int, n list) Hashtbl.t = Hashtbl.create 8192
let tbl_uc : (int, n list) Hashtbl.t = Hashtbl.create 8192
let lc c = match Hashtbl.find_opt tbl_lc (int_of_n c) with Some l -> l | None -> [c]
let uc c = match Hashtbl.find_opt tbl_uc (int_of_n c) with Some l -> l | None -> [c]
let flag c b = match Hashtbl.find_opt tbl_flags (int_of_n c) with Some f -> f land b <> 0 | None -> false
let is_lower c = flag c 1
let is_upper c = flag c 2

let dialect_of_int = function 1 -> American | 2 -> Canadian | 3 -> Australian | _ -> British
let split_on ch s = List.map String.trim (String.split_on_char ch s)
let nonempty l = List.filter (fun s -> s <> "") l
let entry_of s =
  match ints_of_line s with
  | d :: cps -> { canon = List.map n_of_int cps; edialect = (if d = 0 then None else Some (dialect_of_int d)) }
  | [] -> failwith "entry"
let rec spans = function a :: b :: t -> { sstart = nat_of_int a; send = nat_of_int b } :: spans t | _ -> []
let show_lint l =
  String.trim (Printf.sprintf "%d %d : %s" (int_of_nat l.sl_span.sstart) (int_of_nat l.sl_span.send)
                 (String.concat " , " (List.map line_of_text l.sl_sugg)))
let show_lints = function
  | Panic _ -> "P"
  | Ok [] -> "-"
  | Ok ls -> String.concat " ; " (List.map show_lint ls)
let show_entries es =
  String.concat " ; " (List.map (fun e ->
    let d = match e.edialect with None -> 0 | Some American -> 1 | Some Canadian -> 2 | Some Australian -> 3 | Some British -> 4 in
    String.trim (Printf.sprintf "%d %s" d (line_of_text e.canon))) es)
let show_spans ws =
  String.concat " " (List.map (fun s -> Printf.sprintf "%d %d" (int_of_nat s.sstart) (int_of_nat s.send)) ws)

let () =
  iter_lines (fun l ->
    if String.length l = 0 then print_newline () else
    let body = String.sub l 1 (String.length l - 1) in
    match l.[0] with
    | 'U' ->
        (match split_bar body with
         | [hd; lcs; ucs] ->
             (match ints_of_line hd with
              | [cp; fl] ->
                  Hashtbl.replace tbl_flags cp fl;
                  Hashtbl.replace tbl_lc cp (text_of_line lcs);
                  Hashtbl.replace tbl_uc cp (text_of_line ucs);
                  print_endline "u"
              | _ -> print_endline "?")
         | _ -> print_endline "?")
    | 'L' ->
        (match split_bar body with
         | [d; src; sp; es; fz] ->
             let d = dialect_of_int (int_of_string d) in
             let dict = List.map entry_of (nonempty (split_on ';' es)) in
             let table =
               List.filter_map (fun row ->
                 match nonempty (split_on ',' row) with
                 | dist :: w :: rs -> Some ((int_of_string dist, ints_of_line w), List.map text_of_line rs)
                 | _ -> None) (nonempty (split_on ';' fz)) in
             (* a distance the implementation never asked for: answer with a word no dictionary lists *)
             let fuzzy _ w k =
               match List.assoc_opt (int_of_nat k, List.map int_of_n w) table with
               | Some rs -> rs
               | None -> [[n_of_int 0]] in
             print_endline (show_lints (run_lint_doc lc uc is_lower is_upper fuzzy dict d (text_of_line src) (spans (ints_of_line sp))))
         | _ -> print_endline "?")
    | 'F' ->
        (match ints_of_line body with
         | [m; d; ex; exl] ->
             let meta = if m = 0 then None else if m = 1 then Some None else Some (Some (dialect_of_int (m - 1))) in
             print_endline (if run_accept_facts meta (dialect_of_int d) (ex <> 0) (exl <> 0) then "1" else "0")
         | _ -> print_endline "?")
    | 'R' ->
        (match List.filter (fun w -> w <> "") (String.split_on_char ' ' body) with
         | name :: ranges ->
             let a = Array.of_list (List.map (fun r ->
                 match String.split_on_char '-' r with
                 | [x; y] -> (int_of_string x, int_of_string y)
                 | _ -> failwith "bad range") ranges) in
             Hashtbl.replace tables name a;
             Printf.printf "R %s %d\n" name (Array.length a)
         | [] -> print_endline "?")
    | 'T' ->
        (match run_doc_words (uni_now ()) (text_of_line body) with
         | Panic _ -> print_endline "P"
         | Ok [] -> print_endline "-"
         | Ok ws -> print_endline (show_spans ws))
    | 'O' -> print_endline (if run_one_word (uni_now ()) (text_of_line body) then "1" else "0")
    | 'A' ->
        (match ints_of_line body with
         | [cp] ->
             let (((w, nm), al), lg) = f24_flags (n_of_int cp) in
             let b x = if x then "1" else "0" in
             print_endline (b w ^ b nm ^ b al ^ b lg)
         | _ -> print_endline "?")
    | 'D' -> Printf.printf "%d %s\n" (int_of_n dict_word_count) (hex_of_n dict_digest)
    | 'M' -> print_endline (if Hashtbl.mem (Lazy.force nonsimple) (ints_of_line body) then "1" else "0")
    | 'N' -> Printf.printf "%d\n" (List.length dict_nonsimple_entries)
    | 'B' ->
        let w = text_of_line body in
        let b x = if x then "1" else "0" in
        print_endline (b (simple_wordb (uni_now ()) w) ^ b (alnum_wordb (uni_now ()) w))
    | 'S' ->
        let item_of it =
          match List.filter (fun w -> w <> "") (String.split_on_char ' ' it) with
          | "w" :: cs -> SWord (List.map (fun c -> n_of_int (int_of_string c)) cs)
          | ["s"; k] -> SSpace (nat_of_int (int_of_string k))
          | ["p"; c] -> SPunct (n_of_int (int_of_string c))
          | _ -> failwith "bad item" in
        let its = List.map item_of (nonempty (split_on ';' body)) in
        (* phase 6: an item list that ends with the item `p 46` is a sentence with a final period (C06SentenceDot.run_sentence_dot) *)
        (* phase 6, step 2: an item list with an apostrophe item (p 39 / p 8217) is a sentence with contractions: the triples
           w ; p apostrophe ; w are grouped greedily from the left into CC items (C06SentenceContr.run_sentence_contr) *)
        let is_apos = function SPunct c -> (int_of_n c = 39 || int_of_n c = 8217) | _ -> false in
        let rec group = function
          | SWord w1 :: (SPunct q as a) :: SWord w2 :: t when is_apos a -> CC (w1, q, w2) :: group t
          | SWord w :: t -> CW w :: group t
          | SSpace k :: t -> CS k :: group t
          | SPunct c :: t -> CP c :: group t
          | [] -> [] in
        let run =
          match List.rev its with
          | SPunct c :: front when int_of_n c = 46 ->
              (* phase 7: contractions in front of the final period: C06SentenceContrDot.run_sentence_contr_dot on the grouped front *)
              let front = List.rev front in
              if List.exists is_apos front then run_sentence_contr_dot (uni_now ()) (group front) else run_sentence_dot (uni_now ()) front
          | _ -> if List.exists is_apos its then run_sentence_contr (uni_now ()) (group its) else run_sentence (uni_now ()) its in
        (match run with
         | None -> print_endline "N"
         | Some ((txt, ts), ws) ->
             print_endline (String.trim (line_of_text txt) ^ " | " ^ (if ts = [] then "-" else show_spans ts)
                            ^ " | " ^ (if ws = [] then "-" else show_spans ws)))
    | 'W' ->
        print_endline (String.concat " | "
          [show_entries f24_dict; line_of_text w_socio_political; show_spans f24_words; show_lints f24_run])
    | _ -> print_endline "?")
