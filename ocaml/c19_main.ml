(* c19 driver.  stdin: one case per line, stdout: one result per line.
     E cps                      -> ser_str (serde_json::to_string of that text): bytes
     U bytes                    -> de_str (serde_json::from_slice::<String>):    "N" | "S cps"
     S bytes                    -> BufRead::lines on those bytes: "n|line|line…", a line = its code points or "E" (not UTF-8)
     L l bytes|s cps|…          -> render of the pieces (fixed fragment / escaped string): bytes
     R start|t v bytes|…|n|r bytes|…   t = serde's verdict on a line (v = -1: error, else record id); n = next
                                  session; r = one serialised record -> "<file>|ERR" or "<file>|ids"
                                  (<file> = its bytes, or "#len:hash" above 1500 bytes)
     M l k,w cps,w cps|c id|…   -> summarize: "T=n K=k:n,… C=id W=cps.cps:n,…" (maps sorted)
     J bytes                    -> one real record line through the model's reader of the concrete Record (C19Record.v):
                                   "N" (rejected) | "<1|0> k=<lint kind index|999> w=<cps.cps,…> n=<bytes.bytes,…>"
                                   1 = the model's writer prints the record it read exactly as that line;
                                   w = contents of the Word(None) tokens; n = the texts of the Number values
     Q bytes|bytes|…            -> the lines as a log through the model's read + summarize over the modelled records:
                                   "ERR" | "T=n K=k:n,… C=key cps.cps=v;… W=cps.cps:n,…" (v: 0 false, 1 true, 2 null)
     B cap|l l l …              -> BufWriter of that capacity fed fragments of those lengths (write_all each, then flush):
                                   the lengths of the chunks handed to the inner writer (one write(2) each)
     C cap|o bytes|a bytes|…|b bytes|…|f l l …|g l l …|s 1 0 …   two concurrent save_stats sessions onto the log `o`:
                                   a / b = the serialised records of process A / B, f / g = the fragment lengths Stats::write
                                   produced for them, s = whose write(2) comes next (1 = A)
                                   -> "<file>|N" (Stats::read rejects the log) | "<file>|n w" (n records; w = 1: old,A,B  2: old,B,A  0: other) *)
let field_body s = if String.length s <= 1 then "" else String.sub s 1 (String.length s - 1)
let bytes_line (bs : n list) : string = line_of_text bs
let digest (bs : n list) : string =
  let l = List.map int_of_n bs in
  let len = List.length l in
  if len <= 1500 then String.concat " " (List.map string_of_int l)
  else
    let h = List.fold_left (fun h b -> (h * 31 + b + 1) land 0xFFFFFFFFFFFF) 7 l in
    Printf.sprintf "#%d:%d" len h
let split_on c s = List.map String.trim (String.split_on_char c s)

let () =
  iter_lines (fun l ->
    if String.length l = 0 then print_newline () else
    let body = field_body l in
    match l.[0] with
    | 'E' -> print_endline (bytes_line (run_ser_str (text_of_line body)))
    | 'U' ->
        (match run_de_str (text_of_line body) with
         | None -> print_endline "N"
         | Some t -> print_endline (String.trim ("S " ^ line_of_text t)))
    | 'S' ->
        let ls = run_lines (text_of_line body) in
        let f = function None -> "E" | Some t -> line_of_text t in
        print_endline (String.concat "|" (string_of_int (List.length ls) :: List.map f ls))
    | 'L' ->
        let piece s =
          if String.length s = 0 then Lit [] else
          match s.[0] with
          | 's' -> Str (text_of_line (field_body s))
          | _ -> Lit (text_of_line (field_body s)) in
        let ps = List.map piece (split_on '|' body) in
        print_endline (bytes_line (run_render ps))
    | 'R' ->
        (match split_on '|' body with
         | [] -> print_endline "?"
         | start :: rest ->
             let tbl = ref [] and sess = ref [] and cur = ref [] in
             List.iter (fun f ->
               if String.length f = 0 then () else
               match f.[0] with
               | 't' ->
                   (match ints_of_line (field_body f) with
                    | v :: bs -> tbl := (List.map n_of_int bs, (if v < 0 then None else Some (n_of_int v))) :: !tbl
                    | [] -> ())
               | 'n' -> sess := List.rev !cur :: !sess; cur := []
               | 'r' -> cur := text_of_line (field_body f) :: !cur
               | _ -> ()) rest;
             let ss = List.rev (List.rev !cur :: !sess) in
             let (file, res) = run_sessions (List.rev !tbl) (text_of_line start) ss in
             let r = match res with
               | None -> "ERR"
               | Some ids -> String.concat " " (List.map (fun i -> string_of_int (int_of_n i)) ids) in
             print_endline (digest file ^ "|" ^ r))
    | 'M' ->
        let rk f =
          if String.length f = 0 then None else
          match f.[0] with
          | 'l' ->
              (match split_on ',' (field_body f) with
               | k :: ws -> Some (RLint (n_of_int (int_of_string (String.trim k)), List.map text_of_line ws))
               | [] -> None)
          | 'c' -> Some (RConfig (n_of_int (int_of_string (String.trim (field_body f)))))
          | _ -> None in
        let rs = List.filter_map rk (split_on '|' body) in
        let s = run_summarize rs in
        let ks = List.sort compare (List.map (fun (k, c) -> (int_of_n k, int_of_nat c)) s.lint_counts) in
        let ws = List.sort compare (List.map (fun (w, c) ->
                   (String.concat "." (List.map (fun x -> string_of_int (int_of_n x)) w), int_of_nat c)) s.misspelled) in
        Printf.printf "T=%d K=%s C=%d W=%s\n" (int_of_nat s.total_applied)
          (String.concat "," (List.map (fun (k, c) -> Printf.sprintf "%d:%d" k c) ks))
          (int_of_n s.final_config)
          (String.concat "," (List.map (fun (w, c) -> Printf.sprintf "%s:%d" w c) ws))
    | 'J' ->
        let dots t = String.concat "." (List.map (fun x -> string_of_int (int_of_n x)) t) in
        (match run_record_line (text_of_line body) with
         | None -> print_endline "N"
         | Some (same, (k, (ws, ns))) ->
             Printf.printf "%d k=%d w=%s n=%s\n" (if same then 1 else 0) (int_of_nat k)
               (String.concat "," (List.map dots ws)) (String.concat "," (List.map dots ns)))
    | 'Q' ->
        let dots t = String.concat "." (List.map (fun x -> string_of_int (int_of_n x)) t) in
        let ls = List.map text_of_line (List.filter (fun f -> String.length f > 0) (split_on '|' body)) in
        (match run_log_summary ls with
         | None -> print_endline "ERR"
         | Some s ->
             let ks = List.sort compare (List.map (fun (k, c) -> (int_of_nat k, int_of_nat c)) s.lint_counts) in
             let ws = List.sort compare (List.map (fun (w, c) -> (dots w, int_of_nat c)) s.misspelled) in
             let cfg = List.map (fun (k, v) -> dots k ^ "=" ^ (match v with None -> "2" | Some true -> "1" | Some false -> "0")) s.final_config in
             Printf.printf "T=%d K=%s C=%s W=%s\n" (int_of_nat s.total_applied)
               (String.concat "," (List.map (fun (k, c) -> Printf.sprintf "%d:%d" k c) ks))
               (String.concat ";" cfg)
               (String.concat "," (List.map (fun (w, c) -> Printf.sprintf "%s:%d" w c) ws)))
    | 'H' ->
        (* H e e …|n|e e …   one harper-ls session history: e = r<id> (HarperRecordLint accepted) | h<index in handler_names>;
           n = shutdown + a new server process; the last session is shut down too -> the record ids on the log, in order *)
        let sess = ref [] and cur = ref [] in
        List.iter (fun f ->
          if f = "n" then (sess := List.rev !cur :: !sess; cur := []) else
          List.iter (fun w ->
            if String.length w >= 2 then
              let v = int_of_string (String.sub w 1 (String.length w - 1)) in
              cur := (if w.[0] = 'r' then Inl (n_of_int v) else Inr (nat_of_int v)) :: !cur)
            (String.split_on_char ' ' f)) (split_on '|' body);
        let ss = List.rev (List.rev !cur :: !sess) in
        print_endline (String.concat " " (List.map (fun i -> string_of_int (int_of_n i)) (run_ls_history_src ss)))
    | 'B' ->
        (match split_on '|' body with
         | cap :: lens :: _ ->
             let ls = List.map nat_of_int (ints_of_line lens) in
             let cs = run_bufwriter_lens (nat_of_int (int_of_string cap)) ls in
             print_endline (String.concat " " (List.map (fun c -> string_of_int (int_of_nat c)) cs))
         | _ -> print_endline "?")
    | 'C' ->
        (match split_on '|' body with
         | cap :: rest ->
             let start = ref [] and la = ref [] and lb = ref [] and fa = ref [] and fb = ref [] and sc = ref [] in
             List.iter (fun f ->
               if String.length f = 0 then () else
               match f.[0] with
               | 'o' -> start := text_of_line (field_body f)
               | 'a' -> la := text_of_line (field_body f) :: !la
               | 'b' -> lb := text_of_line (field_body f) :: !lb
               | 'f' -> fa := List.map nat_of_int (ints_of_line (field_body f))
               | 'g' -> fb := List.map nat_of_int (ints_of_line (field_body f))
               | 's' -> sc := List.map (fun i -> i <> 0) (ints_of_line (field_body f))
               | _ -> ()) rest;
             let (file, res) = run_concurrent (nat_of_int (int_of_string cap)) !start (List.rev !la) (List.rev !lb) !fa !fb !sc in
             (match res with
              | None -> print_endline (digest file ^ "|N")
              | Some (n, w) -> Printf.printf "%s|%d %d\n" (digest file) (int_of_nat n) (int_of_nat w))
         | [] -> print_endline "?")
    | _ -> print_endline "?")
