(* c16 driver — textually appended after gen/c16_model.ml (which shadows `string`, `length`, `map`…:
   everything from the OCaml library is reached through the Stdlib module).
   stdin: one case per line, fields separated by '|', integers separated by spaces; the driver keeps
   ONE linter state across lines (a history), as the harness does with the real harper_wasm::Linter.

     K cfgstring                       curated config over the key universe (t/f/n per key id, '-' = absent)   -> ok
     N dialect                         Linter::new                                                              -> ok
     L lang | text | effcfg | alts     lint; alts = raw lints (with context hashes) per candidate user dictionary
                                                                       -> OK <TAB> json <TAB> json ...   |  P
     A text | wlint | sug | line       apply_suggestion; line = the bytes of the record the real linter pushed (its
                                       clock, uuid and fat tokens answer the model's env / fat_context; the model
                                       reads it with C19Record's reader) or `-`   -> T cps | P
     I text | wlint | ctxalts          ignore_lint                      -> ok
     XI                                export_ignored_lints             -> sorted hashes
     MI json-cps                       import_ignored_lints             -> ok | err
     CI                                clear_ignored_lints              -> ok
     W n {id len cps}*                 import_words (each word with its WordId) -> ok
     XW                                export_words                     -> words (cps), sorted, ';'-separated
     SC cfgstring | SC !               set_lint_config_from_json        -> ok | err
     GC                                get_lint_config_as_json          -> cfgstring
     S                                 generate_stats_file              -> F <the file, LF shown as TAB>  (byte for byte)
     D                                 get_dialect                      -> d
     JL wlint / JS a b / JG sug / JH hashes(decimal)      to_json       -> the JSON text (UTF-8)
     PL cps / PS cps / PG cps / PH cps                    from_json then to_json -> JSON text | none
     DC lang | text | pretoks | dicts | items   Model/C16Ctx.v: the Document under each user dictionary (tokens of the
                                       dictionary-free parse + get_word_metadata per word) and which (lint, dictionary)
                                       items share an ignore context -> dump ; dump ... # class class ...
     TT text | core result            to_title_case (Model/C16Api.v xstep; the composition computed on harper_core) -> T cps
     LE text | alts  /  IE text | alts  is_likely_english / isolate_english: per candidate dictionary the answer of
                                       harper_core; the model says which dictionary the linter uses  -> b 0|1  /  T cps
     DCFG                              get_default_lint_config_as_json -> cfgstring
     IS bytes                          import_stats_file of this file (Model/C16Stats.v: C19Record's reader per line) -> ok | err
     SUM a b                           summarize_stats(a, b) ('-' = None) -> total | kind:count ... | word:count ... | n config entries
     KD n {id code}*                   the rule descriptions (key id, code of the text)                         -> ok
     LD                                get_lint_descriptions_as_json    -> id:code ...
   A model-side lookup that the case line cannot answer (dictionary or config the harness did not
   offer) prints MODEL-FAIL, which shows up as a disagreement. *)
module SS = Stdlib.String
module SL = Stdlib.List

let rec nat_of_int (n : int) : nat = if n <= 0 then O else S (nat_of_int (n - 1))
let int_of_nat (n : nat) : int = let rec go acc = function O -> acc | S m -> go (acc + 1) m in go 0 n
let rec pos_of_int (n : int) : positive =
  if n <= 1 then XH else if n land 1 = 0 then XO (pos_of_int (n lsr 1)) else XI (pos_of_int (n lsr 1))
let n_of_int (n : int) : n = if n <= 0 then N0 else Npos (pos_of_int n)
let rec int_of_pos = function XH -> 1 | XO p -> 2 * int_of_pos p | XI p -> 2 * int_of_pos p + 1
let int_of_n = function N0 -> 0 | Npos p -> int_of_pos p
(* unsigned 64-bit decimal -> N *)
let n_of_u64_string (s : SS.t) : n =
  let x = Stdlib.Int64.of_string ("0u" ^ s) in
  let rec pos (x : int64) : positive =
    if Stdlib.Int64.equal x 1L then XH
    else
      let rest = pos (Stdlib.Int64.shift_right_logical x 1) in
      if Stdlib.Int64.equal (Stdlib.Int64.logand x 1L) 0L then XO rest else XI rest in
  if Stdlib.Int64.equal x 0L then N0 else Npos (pos x)

let words (s : SS.t) : SS.t list = SL.filter (fun w -> w <> "") (SS.split_on_char ' ' s)
let ints (s : SS.t) : int list = SL.map int_of_string (words s)
let fields (s : SS.t) : SS.t list = SL.map SS.trim (SS.split_on_char '|' s)
let text_of_ints (l : int list) : n list = SL.map n_of_int l
let utf8 (t : n list) : SS.t =
  let b = Stdlib.Buffer.create 64 in
  SL.iter (fun c -> let i = int_of_n c in
                    if Stdlib.Uchar.is_valid i then Stdlib.Buffer.add_utf_8_uchar b (Stdlib.Uchar.of_int i)
                    else Stdlib.Buffer.add_string b "\xff") t;
  Stdlib.Buffer.contents b
let cps (t : n list) : SS.t = SS.concat " " (SL.map (fun c -> string_of_int (int_of_n c)) t)

(* ---- cursor over an int list ---- *)
let rec times (n : int) (f : unit -> 'a) : 'a list = if n <= 0 then [] else let x = f () in x :: times (n - 1) f
let take (cur : int list ref) : int =
  match !cur with x :: t -> cur := t; x | [] -> failwith "case line too short"
let read_text cur : n list = let n = take cur in times n (fun () -> n_of_int (take cur))
let read_lang cur = if take cur = 0 then Plain else Markdown
let kinds = [| Spelling; Capitalization; Style; Formatting; Repetition; Enhancement; Readability; WordChoice; Miscellaneous; Punctuation |]
let kind_index k = let r = ref (-1) in Stdlib.Array.iteri (fun i x -> if x = k then r := i) kinds; !r
let read_sug cur =
  match take cur with
  | 0 -> ReplaceWith (read_text cur)
  | 1 -> InsertAfter (read_text cur)
  | _ -> Remove
let read_rlint cur : rlint =
  let a = take cur in let b = take cur in
  let k = kinds.(take cur) in
  let pr = take cur in
  let msg = read_text cur in
  let ns = take cur in
  let sg = times ns (fun () -> read_sug cur) in
  { rspan = { sstart = nat_of_int a; send = nat_of_int b }; rkind = k; rsugs = sg; rmsg = msg; rprio = nat_of_int pr }
let read_wlint cur : wlint =
  let r = read_rlint cur in
  let pt = read_text cur in
  let lg = read_lang cur in
  { winner = r; wproblem = pt; wlang = lg }
let read_words cur : n list list = let n = take cur in times n (fun () -> read_text cur)

(* ---- configuration strings ---- *)
let cfg_of_string (s : SS.t) : (n * bool option) list =
  let out = ref [] in
  SS.iteri (fun i c -> match c with
    | 't' -> out := (n_of_int i, Some true) :: !out
    | 'f' -> out := (n_of_int i, Some false) :: !out
    | 'n' -> out := (n_of_int i, None) :: !out
    | _ -> ()) s;
  SL.rev !out
let universe = ref 0
let string_of_cfg (c : (n * bool option) list) : SS.t =
  let b = Stdlib.Bytes.make !universe '-' in
  SL.iter (fun (k, v) ->
    let i = int_of_n k in
    if i < !universe then
      Stdlib.Bytes.set b i (match v with Some true -> 't' | Some false -> 'f' | None -> 'n')) c;
  Stdlib.Bytes.to_string b

(* ---- what the current case line offers to the model's Section variables ---- *)
let curated : (n * bool option) list ref = ref []
let word_ids : (n list, n) Stdlib.Hashtbl.t = Stdlib.Hashtbl.create 64
let cur_text : n list ref = ref []
let cur_lang = ref Plain
let cur_cfg : (n * bool option) list option ref = ref None
let alts : (n list list * (rlint * n) list) list ref = ref []

let dict_key (d : (n * n list) list) : n list list = SL.sort compare (SL.map snd d)
let word_id (w : n list) : n =
  match Stdlib.Hashtbl.find_opt word_ids w with Some i -> i | None -> failwith "word_id: word without id"
let raw_lints (t : n list) (lang : language) (cfg : (n * bool option) list) (d : (n * n list) list) (_ : nat) : rlint list =
  if t <> !cur_text || lang <> !cur_lang then failwith "raw_lints: asked for another document";
  (match !cur_cfg with
   | Some c when c <> cfg -> failwith ("raw_lints: effective config differs from the implementation's: model " ^ string_of_cfg cfg)
   | _ -> ());
  match SL.assoc_opt (dict_key d) !alts with
  | Some ls -> SL.map fst ls
  | None -> failwith "raw_lints: the model's lint dictionary is none of the dictionaries offered"
let ctx (l : rlint) (t : n list) (lang : language) (d : (n * n list) list) : n =
  if t <> !cur_text || lang <> !cur_lang then failwith "ctx: asked for another document";
  match SL.assoc_opt (dict_key d) !alts with
  | Some ls -> (match SL.find_opt (fun (l', _) -> l' = l) ls with
                | Some (_, h) -> h
                | None -> failwith "ctx: lint without context hash")
  | None -> failwith "ctx: the model's lint dictionary is none of the dictionaries offered"

(* alts: n { words ; m { rlint hash } } *)
let read_alts cur =
  let n = take cur in
  times n (fun () ->
    let ws = SL.sort compare (read_words cur) in
    let m = take cur in
    let ls = times m (fun () -> let r = read_rlint cur in let h = n_of_int (take cur) in (r, h)) in
    (ws, ls))

(* ---- DC: documents and contexts ---- *)
let opt_n (i : int) : n option = if i < 0 then None else Some (n_of_int i)
let read_kind cur : tkind =
  match take cur with
  | 0 -> KWord (opt_n (take cur))
  | 1 -> KPunct (n_of_int (take cur))
  | 2 -> let t = take cur in KQuote (if t < 0 then None else Some (nat_of_int t))
  | 3 -> KDecade
  | 4 -> let v = n_of_int (take cur) in let s = opt_n (take cur) in let r = n_of_int (take cur) in
         let p = nat_of_int (take cur) in KNumber (v, s, r, p)
  | 5 -> KSpace (nat_of_int (take cur))
  | 6 -> KNewline (nat_of_int (take cur))
  | 7 -> KEmail | 8 -> KUrl | 9 -> KHostname | 10 -> KUnlintable | 11 -> KParagraphBreak | 12 -> KRegexish
  | _ -> failwith "token kind"
let read_token cur : token =
  let a = take cur in let b = take cur in
  { tspan = { sstart = nat_of_int a; send = nat_of_int b }; tkd = read_kind cur }
let show_opt = function None -> "-1" | Some c -> string_of_int (int_of_n c)
let show_kind = function
  | KWord m -> "0 " ^ show_opt m
  | KPunct p -> "1 " ^ string_of_int (int_of_n p)
  | KQuote t -> "2 " ^ (match t with None -> "-1" | Some n -> string_of_int (int_of_nat n))
  | KDecade -> "3"
  | KNumber (v, s, r, p) -> SS.concat " " ["4"; string_of_int (int_of_n v); show_opt s; string_of_int (int_of_n r); string_of_int (int_of_nat p)]
  | KSpace n -> "5 " ^ string_of_int (int_of_nat n)
  | KNewline n -> "6 " ^ string_of_int (int_of_nat n)
  | KEmail -> "7" | KUrl -> "8" | KHostname -> "9" | KUnlintable -> "10" | KParagraphBreak -> "11" | KRegexish -> "12"
let show_token (t : token) : SS.t =
  SS.concat " " [string_of_int (int_of_nat t.tspan.sstart); string_of_int (int_of_nat t.tspan.send); show_kind t.tkd]
let handle_dc (f : int -> SS.t) : SS.t =
  let lang = if int_of_string (f 0) = 0 then Plain else Markdown in
  let t = read_text (ref (ints (f 1))) in
  let cur = ref (ints (f 2)) in
  let ntok = take cur in
  let pre = times ntok (fun () -> read_token cur) in
  let cur = ref (ints (f 3)) in
  let nd = take cur in
  let metas : (int * n list, n option) Stdlib.Hashtbl.t = Stdlib.Hashtbl.create 64 in
  (* the model's dict = (WordId, spelling) list; here the id is the number of the dictionary, which is
     how word_meta recognises the dictionary it is asked about *)
  let dicts = SL.mapi (fun i () ->
      let ws = read_words cur in
      let m = take cur in
      ignore (times m (fun () -> let w = read_text cur in let c = take cur in
                                 Stdlib.Hashtbl.replace metas (i, w) (opt_n c)));
      (i, ws)) (times nd (fun () -> ())) in
  let dict_of i : (n * n list) list = SL.map (fun w -> (n_of_int i, w)) (SL.assoc i dicts) in
  let dict_index (d : (n * n list) list) : int =
    match d with
    | (k, _) :: _ -> int_of_n k
    | [] -> (match SL.find_opt (fun (_, ws) -> ws = []) dicts with Some (i, _) -> i | None -> failwith "word_meta: empty dictionary not offered") in
  let pre_tokens (t' : n list) (lg : language) : token list =
    if t' <> t || lg <> lang then failwith "pre_tokens: asked for another document"; pre in
  let word_meta (d : (n * n list) list) (w : n list) : n option =
    match Stdlib.Hashtbl.find_opt metas (dict_index d, w) with
    | Some m -> m
    | None -> failwith "word_meta: word without an answer" in
  let cur = ref (ints (f 4)) in
  let ni = take cur in
  let items = times ni (fun () -> let l = read_rlint cur in let di = take cur in (l, dict_of di)) in
  let dumps = SL.map (fun (i, _) ->
      match document pre_tokens word_meta t lang (dict_of i) with
      | Ok dc -> SS.concat "," (SL.map show_token dc.dtoks)
      | Panic _ -> "P") dicts in
  let classes = SL.map (function Some c -> string_of_int (int_of_nat c) | None -> "P")
                  (run_ctx_classes pre_tokens word_meta t lang items) in
  SS.concat " ; " dumps ^ " # " ^ SS.concat " " classes

let cst : (state * drv_record list) ref = ref (new0 [] O, [])
(* what the case line offers to the Section variables of Model/C16Api.v / Model/C16Stats.v *)
let tt_answer : (n list * n list) option ref = ref None
let english_alts : (n list list * n list) list ref = ref []     (* dictionary -> answer (a bool as [0]/[1]) *)
let title_case (t : n list) : n list =
  match !tt_answer with Some (t', r) when t' = t -> r | _ -> failwith "title_case: asked for another text"
let english_answer (t : n list) (d : (n * n list) list) : n list =
  if t <> !cur_text then failwith "english: asked for another text";
  match SL.assoc_opt (dict_key d) !english_alts with
  | Some r -> r
  | None -> failwith "english: the model's lint dictionary is none of the dictionaries offered"
let likely_english t d = (match english_answer t d with [c] -> int_of_n c = 1 | _ -> failwith "likely_english: not a bool")
let isolate t d = english_answer t d
let descriptions : (n * n list) list ref = ref []
(* the record the real apply_suggestion pushed, read by the model's own reader: its fat tokens, clock and uuid are
   what the model cannot know; the KIND is the model's (from the lint of the call) *)
let cur_record : drv_record option ref = ref None
let fat_context _ _ _ _ = match !cur_record with Some (RKLint (_, cx), _) -> cx | _ -> []
let z_of_int (i : int) : z = if i = 0 then Z0 else if i > 0 then Zpos (pos_of_int i) else Zneg (pos_of_int (- i))
let do_ystep (c : ycall) : yout =
  let env = match !cur_record with Some (_, e) -> e | None -> (Z0, []) in
  let (cst', o) = drv_cstep !curated word_id raw_lints ctx title_case likely_english isolate !descriptions fat_context env !cst c in
  cst := cst'; o
let do_xstep (c : xcall) : xout =
  match do_ystep (YX c) with YOut o -> o | YFileOut f -> XFile f | _ -> failwith "cstep (YX _) answered with a summary"
let do_step (c : call) : out =
  match do_xstep (XBase c) with XOut o -> o | _ -> failwith "xstep (XBase _) did not answer with XOut"
let string_of_bytes (b : n list) : SS.t =
  SS.init (SL.length b) (let a = Stdlib.Array.of_list b in fun i -> Stdlib.Char.chr ((int_of_n a.(i)) land 255))
let read_english_alts cur (is_bool : bool) =
  let n = take cur in
  times n (fun () ->
    let ws = SL.sort compare (read_words cur) in
    let r = if is_bool then [n_of_int (take cur)] else read_text cur in
    (ws, r))

let unit_out = function OUnit -> "ok" | OErr -> "err" | OPanic _ -> "P" | _ -> "?"

let handle (l : SS.t) : SS.t =
  let sp = match SS.index_opt l ' ' with Some i -> i | None -> SS.length l in
  let cmd = SS.sub l 0 sp in
  let body = SS.sub l sp (SS.length l - sp) in
  let fs = fields body in
  let f i = SL.nth fs i in
  match cmd with
  | "K" -> universe := SS.length (f 0); curated := cfg_of_string (f 0); "ok"
  | "N" -> cst := (new0 !curated (nat_of_int (int_of_string (f 0))), []); Stdlib.Hashtbl.reset word_ids; "ok"
  | "KD" ->
      let cur = ref (ints (f 0)) in
      let n = take cur in
      descriptions := times n (fun () -> let k = n_of_int (take cur) in let c = n_of_int (take cur) in (k, [c])); "ok"
  | "LD" ->
      (match do_ystep YGetDescriptions with
       | YDescriptions d -> SS.concat " " (SL.map (fun (k, t) -> string_of_int (int_of_n k) ^ ":" ^ cps t) d)
       | _ -> "?")
  | "SUM" ->
      let b x = if x = "-" then None else Some (z_of_int (int_of_string x)) in
      (match words (f 0) with
       | [a; e] ->
           (match do_ystep (YSummarize (b a, b e)) with
            | YSummary s ->
                let counts = SL.sort compare (SL.map (fun (k, c) -> (int_of_nat k, int_of_nat c)) s.lint_counts) in
                let missp = SL.sort compare (SL.map (fun (w, c) -> (SL.map int_of_n w, int_of_nat c)) s.misspelled) in
                SS.concat " | " [
                  string_of_int (int_of_nat s.total_applied);
                  SS.concat " " (SL.map (fun (k, c) -> string_of_int k ^ ":" ^ string_of_int c) counts);
                  SS.concat " ; " (SL.map (fun (w, c) -> SS.concat " " (SL.map string_of_int w) ^ " :" ^ string_of_int c) missp);
                  string_of_int (SL.length s.final_config) ]
            | _ -> "?")
       | _ -> "?")
  | "L" ->
      let lang = if int_of_string (f 0) = 0 then Plain else Markdown in
      let t = text_of_ints (ints (f 1)) in
      cur_text := t; cur_lang := lang; cur_cfg := Some (cfg_of_string (f 2));
      alts := read_alts (ref (ints (f 3)));
      (match do_step (CLint (t, lang)) with
       | OLints ls -> SS.concat "\t" ("OK" :: SL.map (fun w -> utf8 (print_wlint w)) ls)
       | OPanic _ -> "P"
       | _ -> "?")
  | "A" ->
      let t = text_of_ints (ints (f 0)) in
      let w = read_wlint (ref (ints (f 1))) in
      let s = read_sug (ref (ints (f 2))) in
      cur_record := None;
      (if f 3 <> "-" then
         match drv_line (text_of_ints (ints (f 3))) with
         | Some r -> cur_record := Some r
         | None -> failwith "the model's reader (C19Record.de_record) rejects the record the linter wrote");
      (match do_step (CApply (t, w, s)) with
       | OText t' -> SS.trim ("T " ^ cps t')
       | OPanic _ -> "P"
       | _ -> "?")
  | "I" ->
      let t = text_of_ints (ints (f 0)) in
      let w = read_wlint (ref (ints (f 1))) in
      cur_text := t; cur_lang := w.wlang; cur_cfg := None;
      alts := read_alts (ref (ints (f 2)));
      unit_out (do_step (CIgnore (t, w)))
  | "XI" ->
      (match do_step CExportIgnored with
       | OJson j -> (match ignored_from_json j with
                     | Some hs -> SS.concat " " (SL.map string_of_int (SL.sort compare (SL.map int_of_n hs)))
                     | None -> "MODEL-FAIL: exported JSON does not parse")
       | _ -> "?")
  | "MI" -> unit_out (do_step (CImportIgnored (text_of_ints (ints (f 0)))))
  | "CI" -> unit_out (do_step CClearIgnored)
  | "W" ->
      let cur = ref (ints (f 0)) in
      let n = take cur in
      let ws = times n (fun () ->
        let id = n_of_int (take cur) in
        let w = read_text cur in
        Stdlib.Hashtbl.replace word_ids w id; w) in
      unit_out (do_step (CImportWords ws))
  | "XW" ->
      (match do_step CExportWords with
       | OWords ws -> SS.concat " ; " (SL.map cps (SL.sort (fun a b -> compare (SL.map int_of_n a) (SL.map int_of_n b)) ws))
       | _ -> "?")
  | "SC" ->
      if f 0 = "!" then unit_out (do_step (CSetConfig None))
      else unit_out (do_step (CSetConfig (Some (cfg_of_string (f 0)))))
  | "GC" -> (match do_step CGetConfig with OConfig c -> string_of_cfg c | _ -> "?")
  | "S" ->
      (match do_xstep XGenerateStats with
       | XFile f -> SS.trim ("F " ^ SS.map (fun c -> if c = '\n' then '\t' else c) (string_of_bytes f))
       | _ -> "?")
  | "D" -> (match do_step CGetDialect with ODialect d -> string_of_int (int_of_nat d) | _ -> "?")
  | "DC" -> handle_dc f
  | "TT" ->
      let t = text_of_ints (ints (f 0)) in
      tt_answer := Some (t, text_of_ints (ints (f 1)));
      (match do_xstep (XToTitleCase t) with XOut (OText r) -> SS.trim ("T " ^ cps r) | _ -> "?")
  | "LE" ->
      let t = text_of_ints (ints (f 0)) in
      cur_text := t; english_alts := read_english_alts (ref (ints (f 1))) true;
      (match do_xstep (XIsLikelyEnglish t) with XBool b -> if b then "b 1" else "b 0" | _ -> "?")
  | "IE" ->
      let t = text_of_ints (ints (f 0)) in
      cur_text := t; english_alts := read_english_alts (ref (ints (f 1))) false;
      (match do_xstep (XIsolateEnglish t) with XOut (OText r) -> SS.trim ("T " ^ cps r) | _ -> "?")
  | "DCFG" -> (match do_xstep XGetDefaultConfig with XOut (OConfig c) -> string_of_cfg c | _ -> "?")
  | "IS" ->
      (match do_xstep (XImportStats (text_of_ints (ints body))) with XOut o -> unit_out o | _ -> "?")
  | "JL" -> utf8 (print_wlint (read_wlint (ref (ints (f 0)))))
  | "JS" -> (match ints (f 0) with [a; b] -> utf8 (print_span { sstart = nat_of_int a; send = nat_of_int b }) | _ -> "?")
  | "JG" -> utf8 (print_wsuggestion (read_sug (ref (ints (f 0)))))
  | "JH" -> utf8 (print_ignored (SL.map n_of_u64_string (words (f 0))))
  | "PL" -> (match lint_from_json (text_of_ints (ints (f 0))) with Some w -> utf8 (print_wlint w) | None -> "none")
  | "PS" -> (match span_from_json (text_of_ints (ints (f 0))) with Some s -> utf8 (print_span s) | None -> "none")
  | "PG" -> (match suggestion_from_json (text_of_ints (ints (f 0))) with Some s -> utf8 (print_wsuggestion s) | None -> "none")
  | "PH" -> (match ignored_from_json (text_of_ints (ints (f 0))) with Some h -> utf8 (print_ignored h) | None -> "none")
  | _ -> "?"

(* the extracted list functions (app, flat_map, raw_lines ...) are not tail recursive and a statistics file is a list
   of bytes: run under an unlimited stack (re-exec once through sh; stdin / stdout are inherited) *)
let () =
  match Stdlib.Sys.getenv_opt "C16_BIGSTACK" with
  | Some _ -> ()
  | None ->
      let cmd = "ulimit -s unlimited 2>/dev/null || ulimit -s 4000000 2>/dev/null; C16_BIGSTACK=1 exec " ^ Stdlib.Filename.quote Stdlib.Sys.executable_name in
      Stdlib.exit (Stdlib.Sys.command cmd)

let () =
  let rec loop () =
    match input_line stdin with
    | l ->
        (if SS.length l = 0 then print_newline ()
         else print_endline (try handle l with Failure m -> "MODEL-FAIL: " ^ m | Not_found -> "MODEL-FAIL: not found" | Invalid_argument m -> "MODEL-FAIL: " ^ m));
        loop ()
    | exception End_of_file -> ()
  in loop ()
