(* c09 driver.  stdin: one case per line, four sections separated by '|':
     <cfg0> {K <url> <tid> <tident> | W <word> | V <url> <word>}*     initial world (disk, user dict, file dicts)
   | op ; op ; ...                                                    history
   | k {A | <id>}*   or   f {A | <id>}*   or   b {A | <id>}*   or   q {A | <id>}*
                                                                      schedule (k: client-interaction steps, f: instr steps,
                                                                       b: batch case = k, run through its expansion to instr steps,
                                                                       q: k where no two handlers overlap = a sequential history)
   | <url>*                                                           urls whose freshness is reported
   ops:  O url lang tid tident version | C url tid tident version | S url | X url | DF d n | DD d | AU w url | AF w url
         | I url k | R | G cfg url*          url: F<d>.<n> | U<n>          lang: p m c x
   stdout: "P" when the schedule is not executable in the model, else
     <publishDiagnostics log, oldest first> # <q|n> # <stale urls>
   for a `b` schedule a fourth section follows: the verdict of the SHAPES of Model/C09Batch.v on the trace of
   critical sections - the urls (of the last section) whose last word the shape predicts WRONG; `~url` when the
   history is outside the class of C09_batch_closed_exact / C09_batch_open_exact for that url; `-` when the
   schedule does not end quiescent.  The `b` run is the instruction-level dispatcher `run` on `kexpand` of the
   schedule; it must end in the same system as `krun` (else `? kexpand`).
   when the history of a `b` case has add-word commands / configuration changes, the class and the shape are those of
   Model/C09Race.v instead (race_okb, race_overtaken on `xtrace` of the expanded schedule: C09_cmd_race_exact_partial).
   for a `q` schedule the world is that of the BIG-STEP specification Model/C09Seq.v (`sfold`, no instrs); it must be the
   world `krun` and `run_seq` end in (else `? sstep`); a fourth section follows: per url that is open on the client and
   has an entry, the components of `lag_of` that lag - `url:` followed by t (text), d (dictionary files), c (parser
   settings; not for plain text, see pcfg below); along the history the driver re-checks C09_seq_step_exact /
   C09_seq_exceptions_exact on the executable definitions (`? lag_after` / `? exception` when they fail).
   a publication is  url=E  or  url=t<tid>.<ident>,<lang>,U<words>,F<words>,i<ident>,L<lcfg>,P<pcfg>,S<scfg>,G<ignored>
   U, F, i are what shows of the two dictionaries of the provenance (the linter's and the one the document
   was parsed with): a word is accepted iff it is in both (Server.observe).
   (pcfg is printed as '-' for plain-text documents: markdown options do not reach their parser; runs of
   consecutive empty publications are sorted by url: HashMap order of did_change_watched_files). *)
let tokens s = List.filter (fun w -> w <> "") (String.split_on_char ' ' s)
let nat_s s = nat_of_int (int_of_string s)
let url_of s =
  if s.[0] = 'F' then
    (match String.split_on_char '.' (String.sub s 1 (String.length s - 1)) with
     | [d; n] -> UFile (nat_s d, nat_s n)
     | _ -> failwith "url")
  else UUntitled (nat_s (String.sub s 1 (String.length s - 1)))
let url_s = function
  | UFile (d, n) -> Printf.sprintf "F%d.%d" (int_of_nat d) (int_of_nat n)
  | UUntitled n -> Printf.sprintf "U%d" (int_of_nat n)
let lang_of = function "p" -> LPlain | "m" -> LMarkdown | "c" -> LCode | _ -> LUnknown
let lang_s = function LPlain -> "p" | LMarkdown -> "m" | LCode -> "c" | LUnknown -> "x"
let op_of s =
  match tokens s with
  | ["O"; u; l; t; i; v] -> Open (url_of u, lang_of l, { t_id = nat_s t; t_ident = nat_s i }, nat_s v)
  | ["C"; u; t; i; v] -> Change (url_of u, { t_id = nat_s t; t_ident = nat_s i }, nat_s v)
  | ["S"; u] -> Save (url_of u)
  | ["X"; u] -> Close (url_of u)
  | ["DF"; d; n] -> Delete (TFile (nat_s d, nat_s n))
  | ["DD"; d] -> Delete (TDir (nat_s d))
  | ["AU"; w; u] -> AddUser (nat_s w, url_of u)
  | ["AF"; w; u] -> AddFile (nat_s w, url_of u)
  | ["I"; u; k] -> Ignore (url_of u, nat_s k)
  | ["R"] -> RecordLint
  | "G" :: c :: us -> CfgChange (nat_s c, List.map url_of us)
  | _ -> failwith ("op: " ^ s)
let rec init_world w = function
  | "K" :: u :: t :: i :: rest -> init_world (set_disk (upsert (url_of u) { t_id = nat_s t; t_ident = nat_s i } w.w_disk) w) rest
  | "W" :: x :: rest -> init_world (set_udict (app w.w_udict [nat_s x]) w) rest
  | "V" :: u :: x :: rest ->
      let u = url_of u in
      let old = match lookup u w.w_fdict with Some l -> l | None -> [] in
      init_world (set_fdict (upsert u (app old [nat_s x]) w.w_fdict) w) rest
  | [] -> w
  | _ -> failwith "init"
let words l = String.concat "." (List.map string_of_int (List.sort_uniq compare (List.map int_of_nat l)))
let pub_s p = match observe p with
  | PEmpty -> "E"
  | PDiag a ->
      Printf.sprintf "t%d.%d,%s,U%s,F%s,i%d,L%d,P%s,S%d,G%s" (int_of_nat a.a_text.t_id) (int_of_nat a.a_text.t_ident)
        (lang_s a.a_lang) (words a.a_dict.dv_user) (words a.a_dict.dv_file) (int_of_nat a.a_dict.dv_ident)
        (int_of_nat a.a_lcfg) (if a.a_lang = LPlain then "-" else string_of_int (int_of_nat a.a_pcfg))
        (int_of_nat a.a_scfg) (words a.a_ign)
(* sort runs of consecutive empty publications by url *)
let canon (l : (string * string) list) : (string * string) list =
  (* acc is kept reversed; a run of empties is flushed in sorted order *)
  let rec go acc run = function
    | (u, "E") :: t -> go acc ((u, "E") :: run) t
    | x :: t -> go (x :: List.rev_append (List.sort compare run) acc) [] t
    | [] -> List.rev_append (List.sort compare run) acc
  in
  List.rev (go [] [] l)
let () =
  iter_lines (fun line ->
    match List.map String.trim (String.split_on_char '|' line) with
    | [ini; hist; sched; urls] ->
        (try
          let w0 = match tokens ini with
            | c :: rest -> init_world (world0 (nat_s c)) rest
            | [] -> world0 O in
          let h = List.filter_map (fun s -> if String.trim s = "" then None else Some (op_of s)) (String.split_on_char ';' hist) in
          let ks cs = List.map (fun c -> if c = "A" then KAdmit else KRun (nat_s c)) cs in
          let xtr = ref [] in
          let res, tr = match tokens sched with
            | "k" :: cs -> model_krun w0 h (ks cs), None
            | "f" :: cs -> model_run w0 h (List.map (fun c -> if c = "A" then CAdmit else CRun (nat_s c)) cs), None
            | "q" :: cs ->
                let big = model_seq w0 h in
                (* the executable statements of the step theorems, along the history *)
                let us = List.map url_of (tokens urls) in
                let _ = List.fold_left (fun (w, ok) o ->
                    let w' = sstep o w in
                    let ok' = ok && proto_okb w o in
                    if ok' then List.iter (fun u ->
                        if lagb w' u <> lag_after o w u then failwith "lag_after";
                        if not (lagb w u) && lagb w' u <> exception0 o w u then failwith "exception") us;
                    (w', ok')) (w0, true) h in
                (match model_krun w0 h (ks cs), run_seq h w0 with
                 | Some y, Some w -> if y.y_world = big && w = big && quiescentb y then Some y, None else failwith "sstep"
                 | None, _ -> None, None
                 | _ -> failwith "sstep")
            | "b" :: cs ->
                (match batch_krun w0 h (ks cs), model_krun w0 h (ks cs) with
                 | Some (y, tr), Some y' ->
                     if y = y' then begin
                       (match race_krun w0 h (ks cs) with
                        | Some (y2, x) -> if y2 = y then xtr := x else failwith "kexpand"
                        | None -> failwith "kexpand");
                       Some y, Some tr
                     end else failwith "kexpand"
                 | None, None -> None, None
                 | _ -> failwith "kexpand")
            | _ -> None, None in
          match res with
          | None -> print_endline "P"
          | Some y ->
              let w = y.y_world in
              let us = List.map url_of (tokens urls) in
              let log = canon (List.rev_map (fun (u, p) -> (url_s u, pub_s p)) w.s_log) in
              let stale = List.filter (fun u -> pub_s (lastword w u) <> pub_s (expected w u)) us in
              let shape = match tr with
                | None -> None
                | Some tr ->
                    Some
                    (if not (quiescentb y) then "-" else
                     if List.exists (function AddUser _ | AddFile _ | CfgChange _ -> true | _ -> false) h then
                       (* a history with commands: the class race_okb and the shape race_overtaken of Model/C09Race.v on
                          the trace of reads, writes and critical sections (C09_cmd_race_exact_partial) *)
                       String.concat " " (List.filter_map (fun u ->
                         if not (race_okb w0 h u) then Some ("~" ^ url_s u)
                         else begin
                           let f = race_shape w0 w u !xtr in
                           if (f.rf_text || f.rf_dict || f.rf_pcfg || f.rf_lcfg || f.rf_scfg) <> race_overtaken w0 w u !xtr then failwith "race_shape";
                           (* the parser settings of a plain-text document do not show (pub_s prints P-) *)
                           let plain = (match lookup u w.w_open with Some cd -> cd.cd_lang = LPlain | None -> false) in
                           if f.rf_text || f.rf_dict || (f.rf_pcfg && not plain) || f.rf_lcfg || f.rf_scfg then Some (url_s u) else None
                         end) us)
                     else
                     String.concat " " (List.filter_map (fun u ->
                       let in_class = List.for_all batch_op h &&
                         (match astate0 (client_after h w0) u with
                          | Some cd -> sess_ok u cd h && init_okb w0 u cd
                          | None -> true) in
                       if not in_class then Some ("~" ^ url_s u)
                       else if shape_verdict w0 h tr u then Some (url_s u) else None) us)) in
              let base = String.trim (String.concat " " (List.map (fun (u, p) -> u ^ "=" ^ p) log)
                             ^ " # " ^ (if quiescentb y then "q" else "n")
                             ^ " # " ^ String.concat " " (List.map url_s stale)) in
              let lagsec = match tokens sched with
                | "q" :: _ ->
                    Some (String.concat " " (List.filter_map (fun u ->
                      match lookup u w.s_docs, lookup u w.w_open with
                      | Some e, Some cd ->
                          let t = (match e.e_text with Some t -> not (text_eqb t cd.cd_text) | None -> true) in
                          let d = not (dictv_eqb e.e_base (sq_dict w u)) in
                          let c = cd.cd_lang <> LPlain && e.e_pcfg <> w.w_ccfg in
                          if (t || d || e.e_pcfg <> w.w_ccfg) <> lagb w u then failwith "lagb";
                          if t || d || c then Some (url_s u ^ ":" ^ (if t then "t" else "") ^ (if d then "d" else "") ^ (if c then "c" else "")) else None
                      | _ -> None) us))
                | _ -> None in
              print_endline (match shape, lagsec with
                | Some sh, _ -> String.trim (base ^ " # " ^ sh)
                | None, Some lg -> String.trim (base ^ " # " ^ lg)
                | None, None -> base)
        with Failure m -> print_endline ("? " ^ m) | Invalid_argument m -> print_endline ("? " ^ m))
    | _ -> print_endline "?")
